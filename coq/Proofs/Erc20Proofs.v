(** Proofs about the erc20 conversion model (properties C03 and C14). *)
From Coq Require Import ZArith NArith List Bool Lia.
From Canto Require Import Model.Erc20.
Import ListNotations.
Open Scope Z_scope.

(** * Small facts *)
Lemma upd_same f a v : upd f a v a = v.
Proof. unfold upd. now rewrite N.eqb_refl. Qed.
Lemma upd_other f a v b : b <> a -> upd f a v b = f b.
Proof. intros H. unfold upd. destruct (N.eqb_spec b a); [contradiction|reflexivity]. Qed.
Lemma MOD_not_ZERO : MOD <> ZERO.
Proof. discriminate. Qed.
Lemma MOD_eqb_ZERO : N.eqb MOD ZERO = false.
Proof. reflexivity. Qed.
Global Opaque MOD.

(** * Hypotheses *)

(* every module account is a blocked address (app.go BlockedAddrs = all maccPerms keys);
   in particular the erc20 module account itself.  Checked by the harness on the real app. *)
Definition wf_blocked (bl : addr -> bool) : Prop := bl MOD = true.

(* nobody holds a key of the module address: no message, Ethereum transaction or bank send
   originates from it; and the deployer of an external contract does not use its
   BURNER_ROLE (burnCoins, not a standard ERC-20 function) on the module's escrowed tokens *)
Definition origin_ok (o : pop) : Prop :=
  match o with
  | ConvertCoin sender _ _ => sender <> MOD
  | ConvertERC20 _ _ _ => True
  | EvmTransfer from _ _ => from <> MOD
  | HolderBurn a _ => a <> MOD
  | RoleBurn caller victim _ => caller <> MOD /\ victim <> MOD
  | BankSend from _ _ => from <> MOD
  | Toggle => True
  | SetSendEnabled _ => True
  | ConvertForeignCoin _ _ _ => True
  end.

(** * The backing invariant of one pair *)
Definition backing (ps : pair) : Prop :=
  match p_kind ps with
  | ModuleOwned => escrow ps = p_total ps + p_selfburned ps + p_stuck ps
  | External => p_supply ps <= p_tbal ps MOD
  end.

Definition ghosts_nonneg (ps : pair) : Prop := 0 <= p_selfburned ps /\ 0 <= p_stuck ps.

Definition pair_inv (ps : pair) : Prop := backing ps /\ ghosts_nonneg ps.

Lemma backing_b_spec ps : backing_b ps = true <-> backing ps.
Proof.
  unfold backing_b, backing. destruct (p_kind ps).
  - apply Z.eqb_eq.
  - apply Z.leb_le.
Qed.

(** * Tactics (ported from the design spike, DESIGN.md Appendix A.5) *)
Ltac break :=
  repeat match goal with
  | H : Some _ = Some _ |- _ => inversion H; subst; clear H
  | H : None = Some _ |- _ => discriminate
  | H : match ?x with ModuleOwned => _ | External => _ end = Some _ |- _ => destruct x eqn:?
  | H : (if ?b then _ else _) = Some _ |- _ => destruct b eqn:?
  | H : match ?x with Some _ => _ | None => _ end = Some _ |- _ => destruct x eqn:?
  end.
Ltac bools :=
  repeat match goal with
  | H : (_ || _) = false |- _ => apply orb_false_elim in H as [? ?]
  | H : (_ && _) = true |- _ => apply andb_prop in H as [? ?]
  | H : negb _ = false |- _ => apply negb_false_iff in H
  | H : negb _ = true |- _ => apply negb_true_iff in H
  | H : (_ <? _) = true |- _ => apply Z.ltb_lt in H
  | H : (_ <? _) = false |- _ => apply Z.ltb_ge in H
  | H : (_ <=? _) = true |- _ => apply Z.leb_le in H
  | H : (_ <=? _) = false |- _ => apply Z.leb_gt in H
  | H : (_ =? _) = true |- _ => apply Z.eqb_eq in H
  | H : (_ =? _) = false |- _ => apply Z.eqb_neq in H
  | H : N.eqb _ _ = true |- _ => apply N.eqb_eq in H
  | H : N.eqb _ _ = false |- _ => apply N.eqb_neq in H
  end.
Ltac maps :=
  unfold upd in *; repeat match goal with
  | |- context [N.eqb ?a ?b] => destruct (N.eqb_spec a b); subst; try congruence
  | H : context [N.eqb ?a ?b] |- _ => destruct (N.eqb_spec a b); subst; try congruence
  end.

Ltac unfold_ops :=
  unfold minting_enabled, hook, csend_m2a, csend, cmint, cburn, tmove, tmint, tburn,
         set_c, set_t, set_ghost, set_flags, burner in *.

Ltac break_goal :=
  repeat match goal with
  | |- context [match ?x with ModuleOwned => _ | External => _ end] => destruct x eqn:?
  | |- context [if ?b then _ else _] => destruct b eqn:?
  | |- context [match ?x with Some _ => _ | None => _ end] => destruct x eqn:?
  end.

Lemma minting_enabled_true m bl ps sender receiver :
  minting_enabled m bl ps sender receiver = true ->
  m = true /\ p_enabled ps = true /\ bl receiver = false /\
  (sender = receiver \/ p_sendok ps = true).
Proof.
  unfold minting_enabled. intros H.
  destruct m; cbn [negb] in H; [|discriminate].
  destruct (p_enabled ps); cbn [negb] in H; [|discriminate].
  destruct (bl receiver); [discriminate|].
  destruct (N.eqb_spec sender receiver); cbn [negb andb] in H.
  - auto.
  - destruct (p_sendok ps); cbn [negb] in H; [auto|discriminate].
Qed.

Ltac unfold_ops ::=
  unfold hook, csend_m2a, csend, cmint, cburn, tmove, tmint, tburn,
         set_c, set_t, set_ghost, set_flags, burner in *.

(** * One operation on one pair preserves the invariant *)
Lemma exec_pair_inv m h bl ps o ps' :
  wf_blocked bl -> origin_ok o -> pair_inv ps ->
  exec_pair m h bl ps o = Some ps' -> pair_inv ps'.
Proof.
  intros W O [B [G1 G2]] E. unfold wf_blocked in W.
  unfold pair_inv, ghosts_nonneg, backing, escrow in *.
  destruct o; cbn [exec_pair origin_ok] in *.
  all: unfold_ops.
  all: break.
  all: repeat match goal with H : minting_enabled _ _ _ _ _ = true |- _ =>
         apply minting_enabled_true in H; destruct H as (? & ? & ? & ?) end.
  all: cbn in *.
  all: break_goal.
  all: cbn in *.
  all: bools.
  all: repeat match goal with H : p_kind _ = _ |- _ => rewrite H in * end.
  all: cbn in *.
  all: try congruence.
  all: try (maps; try lia; fail).
Qed.

(** * Several pairs: frame and global invariant *)
(* a call inside a multi-log transaction: not made by the module address either *)
Definition leg_origin_ok (l : leg) : Prop :=
  match l with LTransfer _ from _ _ => from <> MOD | _ => True end.

Definition origin_ok_op (o : op) : Prop :=
  match o with
  | OnPair _ po => origin_ok po
  | SetParams _ _ => True
  | EvmTx legs => Forall leg_origin_ok legs
  end.

Definition state_inv (s : state) : Prop :=
  wf_blocked (blocked s) /\ forall p, pair_inv (pairs s p).

Lemma updp_same f p v : updp f p v p = v.
Proof. unfold updp. now rewrite Z.eqb_refl. Qed.
Lemma updp_other f p v q : q <> p -> updp f p v q = f q.
Proof. intros H. unfold updp. destruct (Z.eqb_spec q p); [contradiction|reflexivity]. Qed.

(* an operation on pair p leaves every other pair, the switches and the blocked set alone *)
Lemma exec_frame s p po s' :
  exec s (OnPair p po) = Some s' ->
  en_mod s' = en_mod s /\ en_hook s' = en_hook s /\ blocked s' = blocked s /\
  forall q, q <> p -> pairs s' q = pairs s q.
Proof.
  cbn [exec]. destruct (exec_pair _ _ _ _ _) as [ps'|]; [|discriminate].
  intros H; inversion H; subst; clear H. cbn. repeat split; try reflexivity.
  intros q Hq. now apply updp_other.
Qed.

Lemma exec_pair_of s p po s' :
  exec s (OnPair p po) = Some s' ->
  exec_pair (en_mod s) (en_hook s) (blocked s) (pairs s p) po = Some (pairs s' p).
Proof.
  cbn [exec]. destruct (exec_pair _ _ _ _ _) as [ps'|]; [|discriminate].
  intros H; inversion H; subst; clear H. cbn. now rewrite updp_same.
Qed.

(* SetParams changes the two switches only *)
Lemma exec_setparams s m h s' :
  exec s (SetParams m h) = Some s' -> blocked s' = blocked s /\ pairs s' = pairs s.
Proof. cbn [exec]. intros H; inversion H; subst; clear H. cbn. auto. Qed.

(* an ordinary transfer touches the token balances of the two parties only *)
Lemma tmove_effect ps a b amt ps' :
  tmove ps a b amt = Some ps' ->
  p_cbal ps' = p_cbal ps /\ p_supply ps' = p_supply ps /\ p_total ps' = p_total ps /\
  p_kind ps' = p_kind ps /\ p_enabled ps' = p_enabled ps /\ p_sendok ps' = p_sendok ps /\
  p_selfburned ps' = p_selfburned ps /\ p_stuck ps' = p_stuck ps /\
  (forall x, x <> a -> x <> b -> p_tbal ps' x = p_tbal ps x) /\
  (a <> b -> p_tbal ps' a = p_tbal ps a - amt /\ p_tbal ps' b = p_tbal ps b + amt) /\
  (a = b -> p_tbal ps' a = p_tbal ps a).
Proof.
  unfold tmove. destruct (_ || _); [discriminate|]. destruct (_ <? _); [discriminate|].
  intros E; inversion E; subst; clear E. cbn.
  repeat split; try reflexivity.
  - intros x Ha Hb. now rewrite !upd_other.
  - rewrite upd_other by assumption. apply upd_same.
  - rewrite upd_same. rewrite upd_other by congruence. reflexivity.
  - intros ->. rewrite !upd_same. lia.
Qed.


(** * One Ethereum transaction with several logs (op [EvmTx])

    Phase 1 executes every call of the transaction, phase 2 is the loop of PostTxProcessing
    over all logs.  Between the two phases an external pair is AHEAD of its invariant: the
    module already holds the tokens of every Transfer-to-module log whose coins are not yet
    minted.  [credit q l] is that advance for pair q and log l; the invariant with a credit
    [c] says  supply + c <= balanceOf(module).  Each iteration of the hook's loop uses up the
    credit of its own log and of no other. *)
Definition to_mod_amt (to : addr) (amt : Z) : Z :=
  if N.eqb to MOD && (0 <? amt) then amt else 0.

Definition credit (q : Z) (l : leg) : Z :=
  match l with
  | LTransfer p _ to amt => if p =? q then to_mod_amt to amt else 0
  | _ => 0
  end.

Fixpoint credits (q : Z) (ls : list leg) : Z :=
  match ls with [] => 0 | l :: r => credit q l + credits q r end.

Definition backing_c (ps : pair) (c : Z) : Prop :=
  match p_kind ps with
  | ModuleOwned => escrow ps = p_total ps + p_selfburned ps + p_stuck ps
  | External => p_supply ps + c <= p_tbal ps MOD
  end.

Definition pair_inv_c (ps : pair) (c : Z) : Prop := backing_c ps c /\ ghosts_nonneg ps.

Lemma pair_inv_c_0 ps : pair_inv_c ps 0 <-> pair_inv ps.
Proof.
  unfold pair_inv_c, pair_inv, backing_c, backing. destruct (p_kind ps).
  - tauto.
  - rewrite Z.add_0_r. tauto.
Qed.

Lemma pair_inv_c_eq ps c c' : c = c' -> pair_inv_c ps c -> pair_inv_c ps c'.
Proof. now intros <-. Qed.

Lemma to_mod_amt_nonneg to amt : 0 <= to_mod_amt to amt.
Proof.
  unfold to_mod_amt. destruct (N.eqb to MOD); cbn [andb]; [|lia].
  destruct (0 <? amt) eqn:A; [apply Z.ltb_lt in A|]; lia.
Qed.

(* phase 1, one call: an ordinary transfer not signed by the module keeps the invariant and
   earns the credit of its log *)
Lemma tmove_inv_c ps from to amt ps' c :
  from <> MOD -> 0 <= amt -> tmove ps from to amt = Some ps' ->
  pair_inv_c ps c -> pair_inv_c ps' (c + to_mod_amt to amt).
Proof.
  intros Hf Ha E [B [G1 G2]].
  destruct (tmove_effect _ _ _ _ _ E) as (Hc & Hs & Ht & Hk & _ & _ & Hb & Hu & Ho & Hd & _).
  unfold pair_inv_c, ghosts_nonneg, backing_c, escrow in *.
  rewrite Hk, Hc, Hs, Ht, Hb, Hu. split; [|split; assumption].
  destruct (p_kind ps); [exact B|].
  unfold to_mod_amt. destruct (N.eqb_spec to MOD) as [->|Hn]; cbn [andb].
  - destruct (Hd Hf) as [_ Hm]. rewrite Hm.
    destruct (0 <? amt); lia.
  - rewrite (Ho MOD) by congruence. lia.
Qed.

(* phase 2, one iteration of the loop: the hook uses up exactly the credit of its log *)
Lemma hook_inv_c m h bl ps from to amt c :
  wf_blocked bl -> pair_inv_c ps (c + to_mod_amt to amt) ->
  pair_inv_c (hook m h bl ps from to amt) c.
Proof.
  intros W [B [G1 G2]]. unfold wf_blocked in W.
  pose proof (to_mod_amt_nonneg to amt) as Hn.
  unfold pair_inv_c, ghosts_nonneg, backing_c, escrow, to_mod_amt in *.
  unfold hook.
  destruct (negb m || negb h); [destruct (p_kind ps); repeat split; try assumption; lia|].
  destruct (0 <? amt) eqn:A; cbn [negb];
    [|rewrite Bool.andb_false_r in *; destruct (p_kind ps); repeat split; try assumption; lia].
  destruct (N.eqb to MOD) eqn:T; cbn [negb andb] in *;
    [|destruct (p_kind ps); repeat split; try assumption; lia].
  destruct (negb (p_enabled ps)); [destruct (p_kind ps); repeat split; try assumption; lia|].
  apply Z.ltb_lt in A.
  destruct (p_kind ps) eqn:K.
  - unfold tburn. rewrite MOD_eqb_ZERO.
    destruct (p_tbal ps MOD <? amt) eqn:C; [rewrite K; repeat split; assumption|].
    apply Z.ltb_ge in C.
    unfold csend_m2a, csend. cbn [set_t p_cbal].
    destruct (bl from) eqn:F; [cbn; rewrite K; repeat split; lia|].
    destruct (p_cbal ps MOD <? amt) eqn:D; [cbn; rewrite K; repeat split; lia|].
    apply Z.ltb_ge in D.
    assert (from <> MOD) by (intros ->; congruence).
    cbn. rewrite K. unfold upd. rewrite N.eqb_refl.
    destruct (N.eqb_spec MOD from); [congruence|]. repeat split; lia.
  - unfold csend_m2a, csend, cmint. cbn [set_c p_cbal].
    destruct (bl from) eqn:F; [cbn; rewrite K; repeat split; lia|].
    destruct (upd (p_cbal ps) MOD (p_cbal ps MOD + amt) MOD <? amt);
      cbn; rewrite K; repeat split; lia.
Qed.

Lemma leg_exec_inv f l f1 (c : Z -> Z) :
  leg_origin_ok l -> leg_exec f l = Some f1 ->
  (forall q, pair_inv_c (f q) (c q)) -> forall q, pair_inv_c (f1 q) (c q + credit q l).
Proof.
  intros O E I q. destruct l as [p from to amt|p owner spender amt|from to amt];
    cbn [leg_exec leg_origin_ok credit] in *.
  - destruct (amt <? 0) eqn:A; [discriminate|]. apply Z.ltb_ge in A.
    destruct (tmove (f p) from to amt) as [ps1|] eqn:E1; [|discriminate].
    inversion E; subst; clear E.
    destruct (Z.eqb_spec p q) as [->|Hq].
    + rewrite updp_same. eapply tmove_inv_c; [exact O|exact A|exact E1|apply I].
    + rewrite updp_other by congruence. rewrite Z.add_0_r. apply I.
  - destruct (_ || _); [discriminate|]. inversion E; subst. rewrite Z.add_0_r. apply I.
  - inversion E; subst. rewrite Z.add_0_r. apply I.
Qed.

Lemma legs_exec_inv ls : forall f f' (c : Z -> Z),
  Forall leg_origin_ok ls -> legs_exec f ls = Some f' ->
  (forall q, pair_inv_c (f q) (c q)) -> forall q, pair_inv_c (f' q) (c q + credits q ls).
Proof.
  induction ls as [|l r IH]; intros f f' c O E I q; cbn [legs_exec credits] in *.
  - inversion E; subst. rewrite Z.add_0_r. apply I.
  - inversion O as [|? ? Ol Or]; subst.
    destruct (leg_exec f l) as [f1|] eqn:E1; [|discriminate].
    eapply pair_inv_c_eq; [|apply (IH f1 f' (fun q => c q + credit q l) Or E)].
    + cbn beta. lia.
    + intros q'. eapply leg_exec_inv; eassumption.
Qed.

Lemma hook_leg_inv m h bl f l (c : Z -> Z) :
  wf_blocked bl -> (forall q, pair_inv_c (f q) (c q + credit q l)) ->
  forall q, pair_inv_c (hook_leg m h bl f l q) (c q).
Proof.
  intros W I q. destruct l as [p from to amt|p owner spender amt|from to amt];
    cbn [hook_leg credit] in *.
  - destruct (Z.eqb_spec p q) as [->|Hq].
    + rewrite updp_same. apply hook_inv_c; [exact W|].
      specialize (I q). now rewrite Z.eqb_refl in I.
    + rewrite updp_other by congruence. specialize (I q).
      destruct (Z.eqb_spec p q); [contradiction|]. now rewrite Z.add_0_r in I.
  - specialize (I q). now rewrite Z.add_0_r in I.
  - specialize (I q). now rewrite Z.add_0_r in I.
Qed.

Lemma hooks_run_inv m h bl ls : forall f (c : Z -> Z),
  wf_blocked bl -> (forall q, pair_inv_c (f q) (c q + credits q ls)) ->
  forall q, pair_inv_c (hooks_run m h bl f ls q) (c q).
Proof.
  unfold hooks_run. induction ls as [|l r IH]; intros f c W I q; cbn [fold_left credits] in *.
  - specialize (I q). now rewrite Z.add_0_r in I.
  - apply IH; [exact W|]. intros q'.
    apply (hook_leg_inv m h bl f l (fun x => c x + credits x r) W).
    intros x. eapply pair_inv_c_eq; [|apply I]. lia.
Qed.

(* the whole transaction: all calls, then the hook over all logs *)
Lemma exec_tx_inv s legs s' :
  Forall leg_origin_ok legs -> state_inv s ->
  exec s (EvmTx legs) = Some s' -> state_inv s'.
Proof.
  intros O [W I] E. cbn [exec] in E.
  destruct (legs_exec (pairs s) legs) as [f|] eqn:E1; [|discriminate].
  inversion E; subst; clear E. split; [exact W|]. cbn [pairs].
  intros q. apply pair_inv_c_0.
  apply (hooks_run_inv _ _ _ legs f (fun _ => 0) W). intros x.
  apply (legs_exec_inv legs (pairs s) f (fun _ => 0) O E1).
  intros y. apply pair_inv_c_0. apply I.
Qed.

(* what a multi-log transaction cannot change before the hook runs: the calls are ordinary
   transfers (and approvals), which touch token balances only *)
Definition same_static (ps ps' : pair) : Prop :=
  p_cbal ps' = p_cbal ps /\ p_supply ps' = p_supply ps /\ p_total ps' = p_total ps /\
  p_kind ps' = p_kind ps /\ p_enabled ps' = p_enabled ps /\ p_sendok ps' = p_sendok ps /\
  p_selfburned ps' = p_selfburned ps /\ p_stuck ps' = p_stuck ps.

Lemma same_static_refl ps : same_static ps ps.
Proof. unfold same_static. repeat split; reflexivity. Qed.

Lemma same_static_trans a b c : same_static a b -> same_static b c -> same_static a c.
Proof.
  unfold same_static. intros (A1 & A2 & A3 & A4 & A5 & A6 & A7 & A8) (B1 & B2 & B3 & B4 & B5 & B6 & B7 & B8).
  repeat split; congruence.
Qed.

Lemma tmove_static ps a b amt ps' : tmove ps a b amt = Some ps' -> same_static ps ps'.
Proof.
  intros E. destruct (tmove_effect _ _ _ _ _ E) as (H1 & H2 & H3 & H4 & H5 & H6 & H7 & H8 & _).
  unfold same_static. repeat split; assumption.
Qed.

Lemma leg_exec_static f l f1 : leg_exec f l = Some f1 -> forall q, same_static (f q) (f1 q).
Proof.
  intros E q. destruct l as [p from to amt|p owner spender amt|from to amt]; cbn [leg_exec] in E.
  - destruct (amt <? 0); [discriminate|].
    destruct (tmove (f p) from to amt) as [ps1|] eqn:E1; [|discriminate].
    inversion E; subst; clear E.
    destruct (Z.eq_dec q p) as [->|Hq].
    + rewrite updp_same. eapply tmove_static; exact E1.
    + rewrite updp_other by exact Hq. apply same_static_refl.
  - destruct (_ || _); [discriminate|]. inversion E; subst. apply same_static_refl.
  - inversion E; subst. apply same_static_refl.
Qed.

Lemma legs_exec_static ls : forall f f',
  legs_exec f ls = Some f' -> forall q, same_static (f q) (f' q).
Proof.
  induction ls as [|l r IH]; intros f f' E q; cbn [legs_exec] in E.
  - inversion E; subst. apply same_static_refl.
  - destruct (leg_exec f l) as [f1|] eqn:E1; [|discriminate].
    eapply same_static_trans; [eapply leg_exec_static; exact E1|apply (IH f1 f' E)].
Qed.

(* the hook with a switch off does nothing *)
Lemma hook_closed m h bl ps from to amt :
  m = false \/ h = false \/ p_enabled ps = false -> hook m h bl ps from to amt = ps.
Proof.
  intros [->|[->|G]]; unfold hook; [reflexivity|now rewrite Bool.orb_true_r|].
  rewrite G. cbn [negb].
  destruct (negb m || negb h); [reflexivity|].
  destruct (negb (0 <? amt)); [reflexivity|].
  destruct (negb (N.eqb to MOD)); reflexivity.
Qed.

Lemma hooks_run_closed m h bl ls : forall f q,
  m = false \/ h = false \/ p_enabled (f q) = false -> hooks_run m h bl f ls q = f q.
Proof.
  unfold hooks_run. induction ls as [|l r IH]; intros f q G; cbn [fold_left]; [reflexivity|].
  assert (S : hook_leg m h bl f l q = f q).
  { destruct l as [p from to amt|p owner spender amt|from to amt]; cbn [hook_leg]; try reflexivity.
    destruct (Z.eq_dec q p) as [->|Hq].
    - rewrite updp_same. now apply hook_closed.
    - now rewrite updp_other. }
  rewrite IH; [exact S|]. rewrite S. exact G.
Qed.

(* the hook never touches the kind, the flags or the self-destroyed counter *)
Lemma hook_flags m h bl ps from to amt :
  let ps' := hook m h bl ps from to amt in
  p_kind ps' = p_kind ps /\ p_enabled ps' = p_enabled ps /\ p_sendok ps' = p_sendok ps /\
  p_selfburned ps' = p_selfburned ps.
Proof.
  cbn zeta. unfold hook.
  destruct (negb m || negb h); [tauto|].
  destruct (negb (0 <? amt)); [tauto|].
  destruct (negb (N.eqb to MOD)); [tauto|].
  destruct (negb (p_enabled ps)); [tauto|].
  destruct (p_kind ps) eqn:K.
  - unfold tburn. destruct (N.eqb MOD ZERO); [tauto|].
    destruct (p_tbal ps MOD <? amt); [tauto|].
    unfold csend_m2a, csend. destruct (bl from); [cbn; tauto|].
    destruct (_ <? _); cbn; tauto.
  - unfold csend_m2a, csend. destruct (bl from); [cbn; tauto|].
    destruct (_ <? _); cbn; tauto.
Qed.

Lemma hooks_run_selfburned m h bl ls : forall f q,
  p_selfburned (hooks_run m h bl f ls q) = p_selfburned (f q).
Proof.
  unfold hooks_run. induction ls as [|l r IH]; intros f q; cbn [fold_left]; [reflexivity|].
  rewrite IH. destruct l as [p from to amt|p owner spender amt|from to amt]; cbn [hook_leg]; try reflexivity.
  destruct (Z.eq_dec q p) as [->|Hq].
  - rewrite updp_same. apply hook_flags.
  - now rewrite updp_other.
Qed.

(* a multi-log transaction never counts as tokens destroyed by their holders *)
Lemma exec_tx_selfburned s legs s' :
  exec s (EvmTx legs) = Some s' ->
  forall q, p_selfburned (pairs s' q) = p_selfburned (pairs s q).
Proof.
  intros E q. cbn [exec] in E.
  destruct (legs_exec (pairs s) legs) as [f|] eqn:E1; [|discriminate].
  inversion E; subst; clear E. cbn [pairs]. rewrite hooks_run_selfburned.
  apply (legs_exec_static legs (pairs s) f E1 q).
Qed.

(* with a switch of pair p off, a multi-log transaction is, for pair p, its ordinary
   transfers and nothing else *)
Lemma exec_tx_closed s legs s' p :
  en_mod s = false \/ en_hook s = false \/ p_enabled (pairs s p) = false ->
  exec s (EvmTx legs) = Some s' ->
  same_static (pairs s p) (pairs s' p) /\ en_mod s' = en_mod s /\ blocked s' = blocked s.
Proof.
  intros G E. cbn [exec] in E.
  destruct (legs_exec (pairs s) legs) as [f|] eqn:E1; [|discriminate].
  inversion E; subst; clear E. cbn [pairs en_mod blocked].
  pose proof (legs_exec_static legs (pairs s) f E1 p) as S.
  rewrite hooks_run_closed.
  - repeat split; try reflexivity; apply S.
  - destruct S as (_ & _ & _ & _ & He & _). rewrite He. exact G.
Qed.

Theorem backing_step s o :
  origin_ok_op o -> state_inv s -> state_inv (deliver s o).
Proof.
  intros O [W I]. unfold deliver. destruct (exec s o) as [s'|] eqn:E; [|split; assumption].
  destruct o as [p po|m h|legs].
  - destruct (exec_frame _ _ _ _ E) as (_ & _ & Hb & Hf).
    pose proof (exec_pair_of _ _ _ _ E) as Ep.
    split; [now rewrite Hb|]. intros q.
    destruct (Z.eq_dec q p) as [->|Hq].
    + eapply exec_pair_inv; [exact W|exact O|apply I|exact Ep].
    + rewrite (Hf q Hq). apply I.
  - destruct (exec_setparams _ _ _ _ E) as [Hb Hp].
    split; [now rewrite Hb|]. intros q. rewrite Hp. apply I.
  - exact (exec_tx_inv s legs s' O (conj W I) E).
Qed.

Theorem backing_history ops : forall s,
  Forall origin_ok_op ops -> state_inv s -> state_inv (run ops s).
Proof.
  unfold run. induction ops as [|o ops IH]; intros s F I; cbn [fold_left]; [exact I|].
  inversion F as [|? ? Ho Hr]; subst.
  apply IH; [exact Hr|]. now apply backing_step.
Qed.

(* the property in the words of its statement *)
Corollary backed_after_history ops s p :
  Forall origin_ok_op ops -> state_inv s ->
  let ps := pairs (run ops s) p in
  match p_kind ps with
  | ModuleOwned =>
      escrow ps >= p_total ps /\
      escrow ps = p_total ps + p_selfburned ps + p_stuck ps
  | External => p_supply ps <= p_tbal ps MOD
  end.
Proof.
  intros F I ps. destruct (backing_history ops s F I) as [_ J].
  destruct (J p) as [B [G1 G2]]. fold ps in B, G1, G2. unfold backing in B.
  destruct (p_kind ps); [split; lia|exact B].
Qed.

(** * The ERC-20 ledger is a ledger: balances are non-negative, finitely supported and
      sum to totalSupply (OpenZeppelin ERC20); hence no balance exceeds totalSupply *)
Fixpoint tsum (f : addr -> Z) (l : list addr) : Z :=
  match l with [] => 0 | a :: r => f a + tsum f r end.

Definition led (f : addr -> Z) (tot : Z) : Prop :=
  (forall a, 0 <= f a) /\
  exists l, NoDup l /\ (forall a, ~ In a l -> f a = 0) /\ tsum f l = tot.

Definition ledger_ok (ps : pair) : Prop := led (p_tbal ps) (p_total ps).

Lemma tsum_upd_notin f a v l : ~ In a l -> tsum (upd f a v) l = tsum f l.
Proof.
  induction l as [|x r IH]; intros H; cbn [tsum]; [reflexivity|].
  rewrite IH by (intros C; apply H; now right).
  rewrite upd_other; [reflexivity|]. intros ->. apply H. now left.
Qed.

Lemma tsum_upd_in f a v l :
  NoDup l -> In a l -> tsum (upd f a v) l = tsum f l - f a + v.
Proof.
  induction l as [|x r IH]; intros N I; [contradiction|].
  inversion N as [|? ? Hx Hr]; subst. cbn [tsum].
  destruct (N.eq_dec x a) as [->|Hne].
  - rewrite upd_same, tsum_upd_notin by exact Hx. lia.
  - destruct I as [->|I]; [congruence|].
    rewrite upd_other by exact Hne. rewrite IH by assumption. lia.
Qed.

Lemma tsum_nonneg f l : (forall a, 0 <= f a) -> 0 <= tsum f l.
Proof. intros H. induction l as [|x r IH]; cbn [tsum]; [lia|]. specialize (H x). lia. Qed.

Lemma tsum_ge f l a : (forall a, 0 <= f a) -> In a l -> f a <= tsum f l.
Proof.
  intros H. induction l as [|x r IH]; intros I; [contradiction|]. cbn [tsum].
  destruct I as [->|I].
  - pose proof (tsum_nonneg f r H). lia.
  - specialize (IH I). specialize (H x). lia.
Qed.

Lemma led_upd f tot a v : led f tot -> 0 <= v -> led (upd f a v) (tot - f a + v).
Proof.
  intros [Hn (l & N & S & T)] Hv. split.
  - intros x. unfold upd. destruct (N.eqb x a); [exact Hv|apply Hn].
  - destruct (in_dec N.eq_dec a l) as [I|I].
    + exists l. split; [exact N|]. split.
      * intros x Hx. rewrite upd_other; [now apply S|]. intros ->. contradiction.
      * rewrite tsum_upd_in by assumption. lia.
    + exists (a :: l). split; [now constructor|]. split.
      * intros x Hx. rewrite upd_other; [apply S; intros C; apply Hx; now right|].
        intros ->. apply Hx. now left.
      * cbn [tsum]. rewrite upd_same, tsum_upd_notin by exact I. rewrite (S a I). lia.
Qed.

Lemma led_le f tot a : led f tot -> f a <= tot.
Proof.
  intros [Hn (l & N & S & T)]. destruct (in_dec N.eq_dec a l) as [I|I].
  - rewrite <- T. now apply tsum_ge.
  - rewrite (S a I), <- T. now apply tsum_nonneg.
Qed.

Lemma led_eq f tot tot' : led f tot -> tot = tot' -> led f tot'.
Proof. now intros H <-. Qed.

Lemma tmove_ledger ps a b amt ps' :
  0 <= amt -> ledger_ok ps -> tmove ps a b amt = Some ps' -> ledger_ok ps'.
Proof.
  unfold ledger_ok, tmove. intros Ha L E.
  destruct (_ || _); [discriminate|].
  destruct (p_tbal ps a <? amt) eqn:C; [discriminate|]. apply Z.ltb_ge in C.
  inversion E; subst; clear E. cbn [p_tbal p_total set_t].
  pose proof (led_upd _ _ a (p_tbal ps a - amt) L ltac:(lia)) as L1.
  pose proof (led_upd _ _ b (upd (p_tbal ps) a (p_tbal ps a - amt) b + amt) L1) as L2.
  eapply led_eq; [apply L2|lia].
  destruct L1 as [Hn _]. specialize (Hn b). lia.
Qed.

Lemma tmint_ledger ps a amt ps' :
  0 <= amt -> ledger_ok ps -> tmint ps a amt = Some ps' -> ledger_ok ps'.
Proof.
  unfold ledger_ok, tmint. intros Ha L E.
  destruct (N.eqb a ZERO); [discriminate|].
  destruct (UINT256 <=? _); [discriminate|].
  inversion E; subst; clear E. cbn [p_tbal p_total set_t].
  eapply led_eq; [apply (led_upd _ _ a (p_tbal ps a + amt) L)|lia].
  destruct L as [Hn _]. specialize (Hn a). lia.
Qed.

Lemma tburn_ledger ps a amt ps' :
  ledger_ok ps -> tburn ps a amt = Some ps' -> ledger_ok ps'.
Proof.
  unfold ledger_ok, tburn. intros L E.
  destruct (N.eqb a ZERO); [discriminate|].
  destruct (p_tbal ps a <? amt) eqn:C; [discriminate|]. apply Z.ltb_ge in C.
  inversion E; subst; clear E. cbn [p_tbal p_total set_t].
  eapply led_eq; [apply (led_upd _ _ a (p_tbal ps a - amt) L)|lia]. lia.
Qed.

(* bank-side primitives and flag/ghost setters do not touch the ERC-20 ledger *)
Definition same_ledger (ps ps' : pair) : Prop :=
  p_tbal ps' = p_tbal ps /\ p_total ps' = p_total ps.
Lemma same_ledger_ok ps ps' : same_ledger ps ps' -> ledger_ok ps -> ledger_ok ps'.
Proof. unfold ledger_ok. intros [-> ->]. auto. Qed.
Lemma csend_same ps a b amt ps' : csend ps a b amt = Some ps' -> same_ledger ps ps'.
Proof. unfold csend. destruct (_ <? _); [discriminate|]. intros E; inversion E; subst. now split. Qed.
Lemma csend_m2a_same bl ps b amt ps' : csend_m2a bl ps b amt = Some ps' -> same_ledger ps ps'.
Proof. unfold csend_m2a. destruct (bl b); [discriminate|]. apply csend_same. Qed.
Lemma cburn_same ps amt ps' : cburn ps amt = Some ps' -> same_ledger ps ps'.
Proof. unfold cburn. destruct (_ <? _); [discriminate|]. intros E; inversion E; subst. now split. Qed.
Lemma cmint_same ps amt : same_ledger ps (cmint ps amt).
Proof. now split. Qed.

Lemma hook_ledger m h bl ps from to amt :
  ledger_ok ps -> ledger_ok (hook m h bl ps from to amt).
Proof.
  intros L. unfold hook.
  destruct (negb m || negb h); [exact L|].
  destruct (negb (0 <? amt)); [exact L|].
  destruct (negb (N.eqb to MOD)); [exact L|].
  destruct (negb (p_enabled ps)); [exact L|].
  destruct (p_kind ps).
  - destruct (tburn ps MOD amt) as [ps2|] eqn:E2; [|exact L].
    pose proof (tburn_ledger _ _ _ _ L E2) as L2.
    destruct (csend_m2a bl ps2 from amt) as [ps3|] eqn:E3.
    + exact (same_ledger_ok _ _ (csend_m2a_same _ _ _ _ _ E3) L2).
    + exact L2.
  - destruct (csend_m2a bl (cmint ps amt) from amt) as [ps3|] eqn:E3.
    + exact (same_ledger_ok _ _ (csend_m2a_same _ _ _ _ _ E3) (same_ledger_ok _ _ (cmint_same ps amt) L)).
    + exact (same_ledger_ok _ _ (cmint_same ps amt) L).
Qed.

Ltac fwd_ledger :=
  repeat match goal with
  | L : ledger_ok ?a, H : same_ledger ?a ?b |- _ =>
      pose proof (same_ledger_ok _ _ H L); clear H
  | L : ledger_ok ?a, H : same_ledger (cmint ?a ?x) ?b |- _ =>
      pose proof (same_ledger_ok _ _ H (same_ledger_ok _ _ (cmint_same a x) L)); clear H
  | L : ledger_ok ?a, H : tmove ?a ?x ?y ?amt = Some ?b |- _ =>
      let P := fresh "P" in assert (P : 0 <= amt) by lia;
      pose proof (tmove_ledger a x y amt b P L H); clear H P
  | L : ledger_ok ?a, H : tmint ?a ?x ?amt = Some ?b |- _ =>
      let P := fresh "P" in assert (P : 0 <= amt) by lia;
      pose proof (tmint_ledger a x amt b P L H); clear H P
  | L : ledger_ok ?a, H : tburn ?a _ _ = Some ?b |- _ =>
      pose proof (tburn_ledger _ _ _ _ L H); clear H
  end.

Lemma exec_pair_ledger m h bl ps o ps' :
  ledger_ok ps -> exec_pair m h bl ps o = Some ps' -> ledger_ok ps'.
Proof.
  intros L E. destruct o; cbn [exec_pair] in E; break; bools;
    repeat match goal with
    | H : csend _ _ _ _ = Some _ |- _ => apply csend_same in H
    | H : csend_m2a _ _ _ _ = Some _ |- _ => apply csend_m2a_same in H
    | H : cburn _ _ = Some _ |- _ => apply cburn_same in H
    end;
    fwd_ledger; try assumption; try (apply hook_ledger; assumption).
Qed.

Definition state_ledgers (s : state) : Prop := forall p, ledger_ok (pairs s p).

(* the same for a transaction with several logs *)
Lemma leg_exec_ledger f l f1 :
  leg_exec f l = Some f1 -> (forall q, ledger_ok (f q)) -> forall q, ledger_ok (f1 q).
Proof.
  intros E L q. destruct l as [p from to amt|p owner spender amt|from to amt]; cbn [leg_exec] in E.
  - destruct (amt <? 0) eqn:A; [discriminate|]. apply Z.ltb_ge in A.
    destruct (tmove (f p) from to amt) as [ps1|] eqn:E1; [|discriminate].
    inversion E; subst; clear E.
    destruct (Z.eq_dec q p) as [->|Hq].
    + rewrite updp_same. eapply tmove_ledger; [exact A|apply L|exact E1].
    + rewrite updp_other by exact Hq. apply L.
  - destruct (_ || _); [discriminate|]. inversion E; subst. apply L.
  - inversion E; subst. apply L.
Qed.

Lemma legs_exec_ledger ls : forall f f',
  legs_exec f ls = Some f' -> (forall q, ledger_ok (f q)) -> forall q, ledger_ok (f' q).
Proof.
  induction ls as [|l r IH]; intros f f' E L; cbn [legs_exec] in E.
  - inversion E; subst. exact L.
  - destruct (leg_exec f l) as [f1|] eqn:E1; [|discriminate].
    apply (IH f1 f' E). eapply leg_exec_ledger; eassumption.
Qed.

Lemma hook_leg_ledger m h bl f l :
  (forall q, ledger_ok (f q)) -> forall q, ledger_ok (hook_leg m h bl f l q).
Proof.
  intros L q. destruct l as [p from to amt|p owner spender amt|from to amt]; cbn [hook_leg]; try apply L.
  destruct (Z.eq_dec q p) as [->|Hq].
  - rewrite updp_same. apply hook_ledger. apply L.
  - rewrite updp_other by exact Hq. apply L.
Qed.

Lemma hooks_run_ledger m h bl ls : forall f,
  (forall q, ledger_ok (f q)) -> forall q, ledger_ok (hooks_run m h bl f ls q).
Proof.
  unfold hooks_run. induction ls as [|l r IH]; intros f L; cbn [fold_left]; [exact L|].
  apply IH. now apply hook_leg_ledger.
Qed.

Lemma exec_tx_ledger s legs s' :
  state_ledgers s -> exec s (EvmTx legs) = Some s' -> state_ledgers s'.
Proof.
  intros L E. cbn [exec] in E.
  destruct (legs_exec (pairs s) legs) as [f|] eqn:E1; [|discriminate].
  inversion E; subst; clear E. unfold state_ledgers. cbn [pairs].
  apply hooks_run_ledger. exact (legs_exec_ledger legs (pairs s) f E1 L).
Qed.

Lemma ledgers_step s o : state_ledgers s -> state_ledgers (deliver s o).
Proof.
  intros L. unfold deliver. destruct (exec s o) as [s'|] eqn:E; [|exact L].
  destruct o as [p po|m h|legs]; intros q.
  - destruct (exec_frame _ _ _ _ E) as (_ & _ & _ & Hf).
    destruct (Z.eq_dec q p) as [->|Hq].
    + eapply exec_pair_ledger; [apply L|exact (exec_pair_of _ _ _ _ E)].
    + rewrite (Hf q Hq). apply L.
  - destruct (exec_setparams _ _ _ _ E) as [_ Hp]. rewrite Hp. apply L.
  - exact (exec_tx_ledger s legs s' L E q).
Qed.

Lemma ledgers_history ops : forall s, state_ledgers s -> state_ledgers (run ops s).
Proof.
  unfold run. induction ops as [|o ops IH]; intros s L; cbn [fold_left]; [exact L|].
  apply IH. now apply ledgers_step.
Qed.

(* no holder owns more tokens than exist; in particular the module's own token balance *)
Lemma balance_le_total ps a : ledger_ok ps -> p_tbal ps a <= p_total ps.
Proof. apply led_le. Qed.

(** * Coins get stuck in escrow only when a Transfer event names a blocked address as
      sender (nobody holds a key of a module account, so this does not happen) *)
Definition from_not_blocked (bl : addr -> bool) (o : pop) : Prop :=
  match o with EvmTransfer from _ _ => bl from = false | _ => True end.

Lemma exec_pair_stuck m h bl ps o ps' :
  from_not_blocked bl o -> pair_inv ps -> ledger_ok ps ->
  exec_pair m h bl ps o = Some ps' -> p_stuck ps' = p_stuck ps.
Proof.
  intros F [B [G1 G2]] L E.
  destruct o; cbn [exec_pair from_not_blocked] in *;
    try (unfold_ops; break; reflexivity).
  (* EvmTransfer *)
  destruct (amt <? 0) eqn:A; [discriminate|]. apply Z.ltb_ge in A.
  destruct (tmove ps from to amt) as [ps1|] eqn:E1; [|discriminate].
  inversion E; subst; clear E.
  pose proof (tmove_ledger _ _ _ _ _ A L E1) as L1.
  assert (K1 : p_cbal ps1 = p_cbal ps /\ p_total ps1 = p_total ps /\ p_stuck ps1 = p_stuck ps /\
               p_selfburned ps1 = p_selfburned ps /\ p_kind ps1 = p_kind ps).
  { unfold tmove in E1. destruct (_ || _); [discriminate|]. destruct (_ <? _); [discriminate|].
    inversion E1; subst. cbn. auto. }
  destruct K1 as (Kc & Kt & Ks & Kb & Kk).
  unfold hook.
  destruct (negb m || negb h); [exact Ks|].
  destruct (negb (0 <? amt)); [exact Ks|].
  destruct (negb (N.eqb to MOD)); [exact Ks|].
  destruct (negb (p_enabled ps1)); [exact Ks|].
  destruct (p_kind ps1) eqn:K.
  - destruct (tburn ps1 MOD amt) as [ps2|] eqn:E2; [|exact Ks].
    pose proof (balance_le_total ps1 MOD L1) as Hle.
    unfold tburn in E2. destruct (N.eqb MOD ZERO); [discriminate|].
    destruct (p_tbal ps1 MOD <? amt) eqn:C; [discriminate|]. apply Z.ltb_ge in C.
    inversion E2; subst; clear E2.
    unfold csend_m2a. rewrite F. unfold csend. cbn [p_cbal set_t].
    unfold backing, escrow in B. rewrite <- Kk in B.
    assert (R : (p_cbal ps1 MOD <? amt) = false) by (apply Z.ltb_ge; rewrite Kc; lia).
    rewrite R. cbn. exact Ks.
  - destruct (csend_m2a bl (cmint ps1 amt) from amt) as [ps3|] eqn:E3; [|exact Ks].
    unfold csend_m2a, csend in E3. destruct (bl from); [discriminate|].
    destruct (_ <? _); [discriminate|]. inversion E3; subst. cbn. exact Ks.
Qed.

Definition leg_from_not_blocked (bl : addr -> bool) (l : leg) : Prop :=
  match l with LTransfer _ from _ _ => bl from = false | _ => True end.

Definition from_not_blocked_op (bl : addr -> bool) (o : op) : Prop :=
  match o with
  | OnPair _ po => from_not_blocked bl po
  | SetParams _ _ => True
  | EvmTx legs => Forall (leg_from_not_blocked bl) legs
  end.

(* one iteration of the hook's loop: nothing gets stuck when the sender is not blocked *)
Lemma hook_stuck m h bl ps from to amt c :
  bl from = false -> pair_inv_c ps c -> ledger_ok ps ->
  p_stuck (hook m h bl ps from to amt) = p_stuck ps.
Proof.
  intros F [B [G1 G2]] L. unfold hook.
  destruct (negb m || negb h); [reflexivity|].
  destruct (negb (0 <? amt)); [reflexivity|].
  destruct (negb (N.eqb to MOD)); [reflexivity|].
  destruct (negb (p_enabled ps)); [reflexivity|].
  destruct (p_kind ps) eqn:K.
  - destruct (tburn ps MOD amt) as [ps2|] eqn:E2; [|reflexivity].
    pose proof (balance_le_total ps MOD L) as Hle.
    unfold tburn in E2. rewrite MOD_eqb_ZERO in E2.
    destruct (p_tbal ps MOD <? amt) eqn:C; [discriminate|]. apply Z.ltb_ge in C.
    inversion E2; subst; clear E2.
    unfold csend_m2a. rewrite F. unfold csend. cbn [p_cbal set_t].
    unfold backing_c, escrow in B. rewrite K in B.
    assert (R : (p_cbal ps MOD <? amt) = false) by (apply Z.ltb_ge; lia).
    rewrite R. reflexivity.
  - destruct (csend_m2a bl (cmint ps amt) from amt) as [ps3|] eqn:E3; [|reflexivity].
    unfold csend_m2a, csend in E3. destruct (bl from); [discriminate|].
    destruct (_ <? _); [discriminate|]. inversion E3; subst. reflexivity.
Qed.

Lemma hooks_run_stuck m h bl ls : forall f (c : Z -> Z),
  wf_blocked bl -> Forall (leg_from_not_blocked bl) ls ->
  (forall q, pair_inv_c (f q) (c q + credits q ls)) -> (forall q, ledger_ok (f q)) ->
  forall q, p_stuck (hooks_run m h bl f ls q) = p_stuck (f q).
Proof.
  unfold hooks_run. induction ls as [|l r IH]; intros f c W F I L q; cbn [fold_left credits] in *;
    [reflexivity|].
  inversion F as [|? ? Fl Fr]; subst.
  rewrite (IH (hook_leg m h bl f l) c W Fr).
  - destruct l as [p from to amt|p owner spender amt|from to amt]; cbn [hook_leg]; try reflexivity.
    destruct (Z.eq_dec q p) as [->|Hq]; [rewrite updp_same|now rewrite updp_other].
    eapply hook_stuck; [exact Fl|apply I|apply L].
  - intros q'. apply (hook_leg_inv m h bl f l (fun x => c x + credits x r) W).
    intros x. eapply pair_inv_c_eq; [|apply I]. lia.
  - now apply hook_leg_ledger.
Qed.

Lemma not_blocked_origin bl ls :
  wf_blocked bl -> Forall (leg_from_not_blocked bl) ls -> Forall leg_origin_ok ls.
Proof.
  intros W F. induction F as [|l r Fl Fr IH]; constructor; [|exact IH].
  destruct l; cbn in *; try exact I. intros ->. unfold wf_blocked in W. congruence.
Qed.

Lemma exec_tx_stuck s legs s' p :
  Forall (leg_from_not_blocked (blocked s)) legs -> state_inv s -> state_ledgers s ->
  exec s (EvmTx legs) = Some s' -> p_stuck (pairs s' p) = p_stuck (pairs s p).
Proof.
  intros F [W I] L E. cbn [exec] in E.
  destruct (legs_exec (pairs s) legs) as [f|] eqn:E1; [|discriminate].
  inversion E; subst; clear E. cbn [pairs].
  rewrite (hooks_run_stuck _ _ _ legs f (fun _ => 0) W F).
  - apply (legs_exec_static legs (pairs s) f E1 p).
  - intros x. apply (legs_exec_inv legs (pairs s) f (fun _ => 0) (not_blocked_origin _ _ W F) E1).
    intros y. apply pair_inv_c_0. apply I.
  - exact (legs_exec_ledger legs (pairs s) f E1 L).
Qed.

Lemma deliver_blocked s o : blocked (deliver s o) = blocked s.
Proof.
  unfold deliver. destruct (exec s o) as [s'|] eqn:E; [|reflexivity].
  destruct o as [p po|m h|legs].
  - now destruct (exec_frame _ _ _ _ E) as (_ & _ & Hb & _).
  - now destruct (exec_setparams _ _ _ _ E) as [Hb _].
  - cbn [exec] in E. destruct (legs_exec (pairs s) legs); [|discriminate].
    now inversion E.
Qed.

Lemma stuck_step s o p :
  from_not_blocked_op (blocked s) o -> state_inv s -> state_ledgers s ->
  p_stuck (pairs (deliver s o) p) = p_stuck (pairs s p).
Proof.
  intros F [W I] L. unfold deliver. destruct (exec s o) as [s'|] eqn:E; [|reflexivity].
  destruct o as [q po|m h|legs].
  - destruct (exec_frame _ _ _ _ E) as (_ & _ & _ & Hf).
    destruct (Z.eq_dec p q) as [->|Hq]; [|now rewrite (Hf p Hq)].
    eapply exec_pair_stuck; [exact F|apply I|apply L|exact (exec_pair_of _ _ _ _ E)].
  - destruct (exec_setparams _ _ _ _ E) as [_ Hp]. now rewrite Hp.
  - exact (exec_tx_stuck s legs s' p F (conj W I) L E).
Qed.

Theorem stuck_history ops : forall s p,
  Forall origin_ok_op ops -> Forall (from_not_blocked_op (blocked s)) ops ->
  state_inv s -> state_ledgers s ->
  p_stuck (pairs (run ops s) p) = p_stuck (pairs s p).
Proof.
  unfold run. induction ops as [|o ops IH]; intros s p O F I L; cbn [fold_left]; [reflexivity|].
  inversion O as [|? ? Ho Hr]; subst. inversion F as [|? ? Fo Fr]; subst.
  rewrite IH.
  - now apply stuck_step.
  - exact Hr.
  - now rewrite deliver_blocked.
  - now apply backing_step.
  - now apply ledgers_step.
Qed.

(* "equal to it except for tokens that holders destroy themselves" *)
Corollary escrow_equals_total_plus_selfburned ops s p :
  Forall origin_ok_op ops -> Forall (from_not_blocked_op (blocked s)) ops ->
  state_inv s -> state_ledgers s -> p_stuck (pairs s p) = 0 ->
  let ps := pairs (run ops s) p in
  p_kind ps = ModuleOwned -> escrow ps = p_total ps + p_selfburned ps.
Proof.
  intros O F I L Z0 ps K.
  pose proof (stuck_history ops s p O F I L) as S. fold ps in S.
  destruct (backing_history ops s O I) as [_ J]. destruct (J p) as [B _]. fold ps in B.
  unfold backing in B. rewrite K in B. lia.
Qed.

(* the ghost counter [selfburned] is exactly the sum of successful holder burns *)
Lemma exec_pair_selfburned m h bl ps o ps' :
  exec_pair m h bl ps o = Some ps' ->
  p_selfburned ps' = p_selfburned ps + match o with HolderBurn _ amt => amt | _ => 0 end.
Proof.
  intros E. destruct o; cbn [exec_pair] in E.
  all: unfold_ops; break; cbn; try lia.
  all: break_goal; cbn; lia.
Qed.

(* a MsgConvertCoin whose coin only bears the name of the pair's contract address (a foreign
   denomination) is refused in every state, and the state stays as it was *)
Lemma foreign_coin_refused s p sender receiver amt :
  exec s (OnPair p (ConvertForeignCoin sender receiver amt)) = None /\
  deliver s (OnPair p (ConvertForeignCoin sender receiver amt)) = s.
Proof. split; reflexivity. Qed.

(** * C14: the gates *)

(* the two conversion messages *)
Definition is_convert_msg (o : pop) : option (addr * addr) :=
  match o with
  | ConvertCoin sender receiver _ => Some (sender, receiver)
  | ConvertERC20 sender receiver _ => Some (sender, receiver)
  | _ => None
  end.

Lemma msg_needs_gate m h bl ps o sender receiver :
  is_convert_msg o = Some (sender, receiver) ->
  minting_enabled m bl ps sender receiver = false ->
  exec_pair m h bl ps o = None.
Proof.
  intros C G. destruct o; cbn [is_convert_msg] in C; try discriminate;
    inversion C; subst; cbn [exec_pair]; rewrite G; cbn [negb];
    destruct (_ <=? _); reflexivity.
Qed.

Lemma gate_closed m bl ps sender receiver :
  m = false \/ p_enabled ps = false \/ bl receiver = true \/
  (sender <> receiver /\ p_sendok ps = false) ->
  minting_enabled m bl ps sender receiver = false.
Proof.
  unfold minting_enabled. intros [->|[H|[H|[Hn H]]]]; [reflexivity| | |].
  - rewrite H. cbn. now destruct (negb m).
  - rewrite H. now destruct (negb m), (negb (p_enabled ps)).
  - rewrite H. apply N.eqb_neq in Hn. rewrite Hn. cbn.
    now destruct (negb m), (negb (p_enabled ps)), (bl receiver).
Qed.

(* and conversely: a conversion that succeeds passed every gate (completeness of the list) *)
Lemma msg_ok_gate_open m h bl ps o sender receiver ps' :
  is_convert_msg o = Some (sender, receiver) ->
  exec_pair m h bl ps o = Some ps' ->
  m = true /\ p_enabled ps = true /\ bl receiver = false /\
  (sender = receiver \/ p_sendok ps = true).
Proof.
  intros C E. apply minting_enabled_true.
  destruct (minting_enabled m bl ps sender receiver) eqn:G; [reflexivity|].
  rewrite (msg_needs_gate _ _ _ _ _ _ _ C G) in E. discriminate.
Qed.

(* pair level: msg_gate and receiver_gate in one statement *)
Lemma pair_msg_gate m h bl ps o sender receiver :
  is_convert_msg o = Some (sender, receiver) ->
  m = false \/ p_enabled ps = false \/ bl receiver = true \/
  (sender <> receiver /\ p_sendok ps = false) ->
  exec_pair m h bl ps o = None.
Proof. intros C G. eapply msg_needs_gate; [exact C|now apply gate_closed]. Qed.

(* the EVM route: with a switch off, the transaction is exactly the ordinary transfer *)
Lemma pair_hook_gate m h bl ps from to amt :
  m = false \/ h = false \/ p_enabled ps = false ->
  exec_pair m h bl ps (EvmTransfer from to amt) =
  (if amt <? 0 then None else tmove ps from to amt).
Proof.
  intros G. cbn [exec_pair]. destruct (amt <? 0); [reflexivity|].
  destruct (tmove ps from to amt) as [ps1|] eqn:E; [|reflexivity].
  f_equal. unfold hook.
  assert (Ken : p_enabled ps1 = p_enabled ps).
  { unfold tmove in E. destruct (_ || _); [discriminate|]. destruct (_ <? _); [discriminate|].
    inversion E; subst. reflexivity. }
  destruct G as [->|[->|G]].
  - reflexivity.
  - now rewrite Bool.orb_true_r.
  - rewrite Ken, G. cbn [negb].
    destruct (negb m || negb h); [reflexivity|].
    destruct (negb (0 <? amt)); [reflexivity|].
    destruct (negb (N.eqb to MOD)); reflexivity.
Qed.

(* ordinary transfers keep working whatever the switches say *)
Lemma transfer_works m h bl ps from to amt :
  from <> ZERO -> to <> ZERO -> 0 <= amt <= p_tbal ps from ->
  exists ps', exec_pair m h bl ps (EvmTransfer from to amt) = Some ps'.
Proof.
  intros Hf Ht [H0 H1]. cbn [exec_pair].
  assert (A : (amt <? 0) = false) by (apply Z.ltb_ge; lia). rewrite A.
  unfold tmove.
  apply N.eqb_neq in Hf. apply N.eqb_neq in Ht. rewrite Hf, Ht. cbn [orb].
  assert (C : (p_tbal ps from <? amt) = false) by (apply Z.ltb_ge; lia). rewrite C.
  eexists. reflexivity.
Qed.

(** ** the same at the level of the whole state *)
Definition bank_same (ps ps' : pair) : Prop :=
  p_cbal ps' = p_cbal ps /\ p_supply ps' = p_supply ps.

Theorem msg_gate s p o sender receiver :
  is_convert_msg o = Some (sender, receiver) ->
  en_mod s = false \/ p_enabled (pairs s p) = false ->
  exec s (OnPair p o) = None /\ deliver s (OnPair p o) = s.
Proof.
  intros C G.
  assert (E : exec s (OnPair p o) = None).
  { cbn [exec]. rewrite (pair_msg_gate _ _ _ _ _ _ _ C); [reflexivity|]. tauto. }
  split; [exact E|]. unfold deliver. now rewrite E.
Qed.

Theorem receiver_gate s p o sender receiver :
  is_convert_msg o = Some (sender, receiver) ->
  blocked s receiver = true \/ (sender <> receiver /\ p_sendok (pairs s p) = false) ->
  exec s (OnPair p o) = None /\ deliver s (OnPair p o) = s.
Proof.
  intros C G.
  assert (E : exec s (OnPair p o) = None).
  { cbn [exec]. rewrite (pair_msg_gate _ _ _ _ _ _ _ C); [reflexivity|]. tauto. }
  split; [exact E|]. unfold deliver. now rewrite E.
Qed.

(* the erc20 module account (any module account) as receiver *)
Corollary receiver_module_account s p o sender :
  wf_blocked (blocked s) -> is_convert_msg o = Some (sender, MOD) ->
  exec s (OnPair p o) = None.
Proof. intros W C. apply (receiver_gate s p o sender MOD C). left. exact W. Qed.

Theorem hook_gate s p from to amt :
  en_mod s = false \/ en_hook s = false \/ p_enabled (pairs s p) = false ->
  let s' := deliver s (OnPair p (EvmTransfer from to amt)) in
  (* the bank side of the pair is untouched, whatever the destination *)
  bank_same (pairs s p) (pairs s' p) /\
  (* the transaction is exactly the ordinary ERC-20 transfer *)
  exec_pair (en_mod s) (en_hook s) (blocked s) (pairs s p) (EvmTransfer from to amt) =
    (if amt <? 0 then None else tmove (pairs s p) from to amt) /\
  (* and it is carried out whenever the sender owns the tokens *)
  (from <> ZERO -> to <> ZERO -> 0 <= amt <= p_tbal (pairs s p) from ->
   exists ps', tmove (pairs s p) from to amt = Some ps' /\ pairs s' p = ps').
Proof.
  intros G s'.
  pose proof (pair_hook_gate (en_mod s) (en_hook s) (blocked s) (pairs s p) from to amt G) as H.
  assert (B : bank_same (pairs s p) (pairs s' p)).
  { unfold s', deliver. cbn [exec]. rewrite H.
    destruct (amt <? 0); [now split|].
    destruct (tmove (pairs s p) from to amt) as [ps1|] eqn:E; [|now split].
    cbn [pairs]. rewrite updp_same.
    destruct (tmove_effect _ _ _ _ _ E) as (Hc & Hs & _). now split. }
  split; [exact B|]. split; [exact H|].
  intros Hf Ht Ha.
  destruct (transfer_works (en_mod s) (en_hook s) (blocked s) (pairs s p) from to amt Hf Ht Ha) as [ps' E].
  exists ps'. rewrite H in E.
  assert (A : (amt <? 0) = false) by (apply Z.ltb_ge; lia). rewrite A in E.
  split; [exact E|].
  unfold s', deliver. cbn [exec]. rewrite H, A, E. cbn [pairs]. apply updp_same.
Qed.

(** ** histories: the gates hold at every step of every history, whatever switch
       changes (SetParams, Toggle, SetSendEnabled) are interleaved *)
Fixpoint trace (s : state) (ops : list op) : list (state * op * state) :=
  match ops with
  | [] => []
  | o :: r => (s, o, deliver s o) :: trace (deliver s o) r
  end.

Definition gate_step (x : state * op * state) : Prop :=
  let '(s, o, s') := x in
  match o with
  | OnPair p po =>
      (forall sender receiver,
         is_convert_msg po = Some (sender, receiver) ->
         en_mod s = false \/ p_enabled (pairs s p) = false \/ blocked s receiver = true \/
         (sender <> receiver /\ p_sendok (pairs s p) = false) ->
         exec s o = None /\ s' = s) /\
      (forall from to amt,
         po = EvmTransfer from to amt ->
         en_mod s = false \/ en_hook s = false \/ p_enabled (pairs s p) = false ->
         bank_same (pairs s p) (pairs s' p) /\
         (from <> ZERO -> to <> ZERO -> 0 <= amt <= p_tbal (pairs s p) from ->
          tmove (pairs s p) from to amt = Some (pairs s' p)))
  | SetParams _ _ => True
  | EvmTx _ =>
      (* a transaction with several logs: whatever it contains, the bank side of a pair whose
         hook route is switched off is untouched *)
      forall p,
        en_mod s = false \/ en_hook s = false \/ p_enabled (pairs s p) = false ->
        bank_same (pairs s p) (pairs s' p)
  end.

Lemma gate_step_holds s o : gate_step (s, o, deliver s o).
Proof.
  unfold gate_step. destruct o as [p po|m h|legs]; [|exact I|].
  2:{ intros p G. unfold deliver. destruct (exec s (EvmTx legs)) as [s'|] eqn:E; [|now split].
      destruct (exec_tx_closed s legs s' p G E) as ((Hc & Hs & _) & _). now split. }
  split.
  - intros sender receiver C G.
    destruct G as [G|[G|G]].
    + apply (msg_gate s p po sender receiver C). now left.
    + apply (msg_gate s p po sender receiver C). now right.
    + apply (receiver_gate s p po sender receiver C). exact G.
  - intros from to amt -> G.
    destruct (hook_gate s p from to amt G) as (B & _ & T).
    split; [exact B|]. intros Hf Ht Ha.
    destruct (T Hf Ht Ha) as (ps' & E & R). now rewrite R.
Qed.

Theorem gates_under_flips ops : forall s, Forall gate_step (trace s ops).
Proof.
  induction ops as [|o ops IH]; intros s; cbn [trace]; constructor.
  - apply gate_step_holds.
  - apply IH.
Qed.

(** ** a disabled period: while the module is off or the pair is toggled off, and until
       somebody changes the parameters or toggles this pair, no coin of the pair is minted,
       burned, escrowed or released and no token is minted, by any route *)
Definition keeps_switches (p : Z) (o : op) : Prop :=
  match o with
  | SetParams _ _ => False
  | OnPair q Toggle => q <> p
  | OnPair _ _ => True
  | EvmTx _ => True
  end.

Lemma exec_pair_frozen m h bl ps o ps' :
  wf_blocked bl -> origin_ok o -> o <> Toggle ->
  m = false \/ p_enabled ps = false ->
  exec_pair m h bl ps o = Some ps' ->
  p_supply ps' = p_supply ps /\ escrow ps' = escrow ps /\ p_total ps' <= p_total ps /\
  p_enabled ps' = p_enabled ps.
Proof.
  intros W O NT G E. unfold wf_blocked in W. unfold escrow.
  destruct o; try congruence.
  - rewrite (pair_msg_gate m h bl ps (ConvertCoin sender receiver amt) sender receiver) in E;
      [discriminate|reflexivity|tauto].
  - rewrite (pair_msg_gate m h bl ps (ConvertERC20 sender receiver amt) sender receiver) in E;
      [discriminate|reflexivity|tauto].
  - rewrite pair_hook_gate in E by tauto.
    destruct (amt <? 0); [discriminate|].
    destruct (tmove_effect _ _ _ _ _ E) as (Hc & Hs & Ht & _ & He & _).
    rewrite Hc, Hs, Ht, He. repeat split; lia.
  - cbn [exec_pair] in E. unfold_ops. break. cbn. bools. repeat split; lia.
  - cbn [exec_pair] in E. unfold_ops. break. cbn. bools. repeat split; lia.
  - cbn [exec_pair origin_ok] in *. unfold_ops. break. cbn. bools.
    repeat split; try lia.
    rewrite upd_other by congruence. rewrite upd_other by congruence. reflexivity.
  - cbn [exec_pair] in E. inversion E; subst. cbn. repeat split; lia.
  - cbn [exec_pair] in E. discriminate.
Qed.

Theorem disabled_period_frozen ops : forall s p,
  wf_blocked (blocked s) -> Forall origin_ok_op ops -> Forall (keeps_switches p) ops ->
  en_mod s = false \/ p_enabled (pairs s p) = false ->
  let ps := pairs s p in
  let ps' := pairs (run ops s) p in
  p_supply ps' = p_supply ps /\ escrow ps' = escrow ps /\ p_total ps' <= p_total ps.
Proof.
  unfold run. induction ops as [|o ops IH]; intros s p W O K G; cbn [fold_left].
  - cbn. repeat split; lia.
  - inversion O as [|? ? Ho Hr]; subst. inversion K as [|? ? Ko Kr]; subst.
    assert (STEP : blocked (deliver s o) = blocked s /\ en_mod (deliver s o) = en_mod s /\
                   p_supply (pairs (deliver s o) p) = p_supply (pairs s p) /\
                   escrow (pairs (deliver s o) p) = escrow (pairs s p) /\
                   p_total (pairs (deliver s o) p) <= p_total (pairs s p) /\
                   p_enabled (pairs (deliver s o) p) = p_enabled (pairs s p)).
    { split; [apply deliver_blocked|].
      unfold deliver. destruct (exec s o) as [s'|] eqn:E; [|repeat split; lia].
      destruct o as [q po|m h|legs]; [|contradiction|].
      2:{ assert (G3 : en_mod s = false \/ en_hook s = false \/ p_enabled (pairs s p) = false) by tauto.
          destruct (exec_tx_closed s legs s' p G3 E) as ((Hc & Hs & Ht & _ & He & _) & Hm & _).
          unfold escrow. rewrite Hc, Hs, Ht, He. repeat split; try assumption; lia. }
      destruct (exec_frame _ _ _ _ E) as (Hm & _ & _ & Hf).
      split; [exact Hm|].
      destruct (Z.eq_dec p q) as [->|Hq].
      - assert (NT : po <> Toggle) by (intros ->; cbn in Ko; congruence).
        apply (exec_pair_frozen _ _ _ _ _ _ W Ho NT G (exec_pair_of _ _ _ _ E)).
      - rewrite (Hf p Hq). repeat split; lia. }
    destruct STEP as (Sb & Sm & Ss & Se & St & Sn).
    assert (G' : en_mod (deliver s o) = false \/ p_enabled (pairs (deliver s o) p) = false)
      by (rewrite Sm, Sn; exact G).
    assert (W' : wf_blocked (blocked (deliver s o))) by (now rewrite Sb).
    destruct (IH (deliver s o) p W' Hr Kr G') as (A1 & A2 & A3).
    cbn zeta in *. repeat split; lia.
Qed.

(** * Non-vacuity: a concrete state with one pair of each kind satisfies every hypothesis,
      conversions do succeed in it, and the theorems apply to a real history *)
Definition zf : addr -> Z := fun _ => 0.
Definition OTHER_MODULE : addr := 77%N.      (* stands for another module account *)
Definition ex_blocked : addr -> bool := fun a => N.eqb a MOD || N.eqb a OTHER_MODULE.

(* module-owned: holder 1 owns 100 coins, 50 coins are escrowed against 50 tokens (holders 2, 3) *)
Definition ex_native : pair :=
  mkPair ModuleOwned ZERO (upd (upd zf 1%N 100) MOD 50) 150
         (upd (upd zf 2%N 30) 3%N 20) 50 true true 0 0.
(* external: 100 tokens exist, the module holds 10 of them against 10 coins owned by holder 1 *)
Definition ex_external : pair :=
  mkPair External 9%N (upd zf 1%N 10) 10
         (upd (upd zf MOD 10) 2%N 90) 100 true true 0 0.
Definition ex_empty : pair := mkPair ModuleOwned ZERO zf 0 zf 0 true true 0 0.
Definition ex_state : state :=
  mkState true true ex_blocked
          (fun p => if p =? 0 then ex_native else if p =? 1 then ex_external else ex_empty).

Lemma led_zero : led zf 0.
Proof.
  split; [intros a; unfold zf; lia|]. exists []. split; [constructor|]. split; reflexivity.
Qed.

Example ex_state_inv : state_inv ex_state.
Proof.
  split; [reflexivity|]. intros p. cbn [pairs ex_state].
  destruct (p =? 0); [|destruct (p =? 1)]; (split; [vm_compute; try reflexivity; discriminate|split; vm_compute; discriminate]).
Qed.

Example ex_state_ledgers : state_ledgers ex_state.
Proof.
  intros p. unfold ledger_ok. cbn [pairs ex_state].
  destruct (p =? 0); [|destruct (p =? 1)]; cbn [p_tbal p_total ex_native ex_external ex_empty].
  - eapply led_eq; [apply led_upd; [apply led_upd; [apply led_zero|lia]|lia]|vm_compute; reflexivity].
  - eapply led_eq; [apply led_upd; [apply led_upd; [apply led_zero|lia]|lia]|vm_compute; reflexivity].
  - apply led_zero.
Qed.

(* a history using both routes, both kinds, a holder burn, a toggle and a parameter flip *)
Definition ex_history : list op :=
  [ OnPair 0 (ConvertCoin 1%N 2%N 40);            (* escrow 40 coins, mint 40 tokens to holder 2 *)
    OnPair 0 (EvmTransfer 2%N MOD 25);            (* hook: burn 25 tokens, release 25 coins to holder 2 *)
    OnPair 0 (HolderBurn 3%N 5);                  (* holder 3 destroys 5 tokens *)
    OnPair 1 (ConvertERC20 2%N 2%N 60);           (* escrow 60 tokens, mint 60 coins *)
    OnPair 1 (ConvertCoin 1%N 1%N 10);            (* burn 10 coins, release 10 tokens *)
    SetParams true false;                         (* hook off *)
    OnPair 1 (EvmTransfer 2%N MOD 7);             (* plain transfer: module now holds 7 unbacked-by-coins tokens *)
    OnPair 0 Toggle;
    OnPair 0 (ConvertCoin 1%N 1%N 1);             (* rejected: pair disabled *)
    SetParams true true;
    OnPair 1 (EvmTransfer 2%N MOD 3) ].           (* hook: mint 3 coins to holder 2 *)

Example ex_history_origin : Forall origin_ok_op ex_history.
Proof. unfold ex_history. repeat constructor; cbn; try discriminate. Qed.

Example ex_history_result :
  let s := run ex_history ex_state in
  (escrow (pairs s 0), p_total (pairs s 0), p_selfburned (pairs s 0), p_stuck (pairs s 0)) = (65, 60, 5, 0) /\
  (p_supply (pairs s 1), p_tbal (pairs s 1) MOD) = (63, 70) /\
  p_enabled (pairs s 0) = false.
Proof. vm_compute. repeat split. Qed.

Example ex_history_backed :
  state_inv (run ex_history ex_state).
Proof. apply backing_history; [apply ex_history_origin|apply ex_state_inv]. Qed.

(* transactions with several logs.  Account 7 stands for a contract account (a vault): it
   receives 20 tokens of pair 0 and then, in ONE transaction, sends tokens to the module
   address twice, with a holder-to-holder transfer, an approval naming the module, a log of an
   unregistered contract and a transfer to the module by another holder in between.  The
   second transaction is on the external pair: a zero-amount log, a transfer to another
   module account, and a log whose sender is a blocked address in the middle (coins are
   minted but cannot be paid out: `continue`), followed by a further log *)
Definition ex_tx_history : list op :=
  [ OnPair 0 (EvmTransfer 2%N 7%N 20);
    EvmTx [ LTransfer 0 7%N MOD 5; LTransfer 0 2%N 3%N 4; LApprove 0 7%N MOD 9;
            LTransfer 0 7%N MOD 6; LForeign 7%N MOD 100; LTransfer 0 3%N MOD 1 ];
    EvmTx [ LTransfer 1 2%N MOD 10; LTransfer 1 2%N MOD 0; LTransfer 1 2%N OTHER_MODULE 5;
            LTransfer 1 OTHER_MODULE MOD 2; LTransfer 1 2%N MOD 3 ];
    EvmTx [ LTransfer 0 7%N MOD 4; LTransfer 0 7%N MOD 6 ] ].   (* 7 owns 9 only: reverts *)

Example ex_tx_history_origin : Forall origin_ok_op ex_tx_history.
Proof. unfold ex_tx_history. repeat constructor; cbn; discriminate. Qed.

Example ex_tx_history_result :
  let s := run ex_tx_history ex_state in
  (escrow (pairs s 0), p_total (pairs s 0), p_cbal (pairs s 0) 7%N, p_cbal (pairs s 0) 3%N,
   p_tbal (pairs s 0) 7%N, p_tbal (pairs s 0) MOD) = (38, 38, 11, 1, 9, 0) /\
  (p_supply (pairs s 1), p_tbal (pairs s 1) MOD, escrow (pairs s 1), p_cbal (pairs s 1) 2%N) = (25, 25, 2, 13).
Proof. vm_compute. split; reflexivity. Qed.

Example ex_tx_history_backed : state_inv (run ex_tx_history ex_state).
Proof. apply backing_history; [apply ex_tx_history_origin|apply ex_state_inv]. Qed.

(* the gates are not vacuous: the same conversion succeeds when enabled and is rejected when
   any one switch is off *)
Example ex_gate_open :
  exists s', exec ex_state (OnPair 0 (ConvertCoin 1%N 2%N 40)) = Some s' /\
             escrow (pairs s' 0) = 90 /\ p_tbal (pairs s' 0) 2%N = 70.
Proof. eexists. split; [vm_compute; reflexivity|]. split; vm_compute; reflexivity. Qed.
Example ex_gate_closed :
  exec (mkState false true ex_blocked (pairs ex_state)) (OnPair 0 (ConvertCoin 1%N 2%N 40)) = None /\
  exec ex_state (OnPair 0 (ConvertCoin 1%N OTHER_MODULE 40)) = None /\
  exec ex_state (OnPair 1 (ConvertERC20 2%N MOD 5)) = None.
Proof. repeat split; vm_compute; reflexivity. Qed.
Example ex_hook_open_vs_closed :
  let t := OnPair 0 (EvmTransfer 3%N MOD 20) in
  escrow (pairs (deliver ex_state t) 0) = 30 /\
  escrow (pairs (deliver (mkState true false ex_blocked (pairs ex_state)) t) 0) = 50 /\
  p_tbal (pairs (deliver (mkState true false ex_blocked (pairs ex_state)) t) 0) MOD = 20.
Proof. repeat split; vm_compute; reflexivity. Qed.

(* the hypothesis [origin_ok] is necessary: a ConvertCoin "signed by the module account"
   would mint unbacked tokens *)
Example ex_origin_needed :
  let s' := deliver ex_state (OnPair 0 (ConvertCoin MOD 2%N 40)) in
  escrow (pairs s' 0) = 50 /\ p_total (pairs s' 0) = 90.
Proof. split; vm_compute; reflexivity. Qed.
