(** Correspondence checker and monitors for C18 (exported genesis is complete).

    A case is one history executed on a real chain (genuine bonded genesis validator, non-zero
    genesis time) followed by:  E1 = the seven Canto modules' genesis documents exported from the
    live deliver context;  the verdict of each module's own ValidateGenesis on E1;  InitChain of a
    FRESH application from the whole exported application state;  E2 = the seven documents exported
    from the fresh application without running a block;  the modules' query answers on both chains.
    A case can also carry malformed documents with the real ValidateGenesis verdict.

    Diffs are (case, step, code); [step] is the index of the last operation of the history (export and
    import happen after it).  The codes below are bases: the reported code is base*10 + module
    (0 coinswap, 1 erc20, 2 csr, 3 inflation, 4 epochs, 5 govshuttle, 6 onboarding) for document codes
    and base*100 + field of [answers] (in order, 0..20) for query codes (4, 7, 14); codes 2, 5, 6, 11 are
    reported as base*10.

    monitors on IMPLEMENTATION observations (the property's own predicates)
      10  a module's ValidateGenesis rejects the document the module exported
      11  the export of a reachable state is not importable: InitChain of a fresh application from it fails
          (export-of-reachable-state-not-importable)
      12  E2 differs from E1 in more than current_epoch_start_height
      13  the raw JSON of a module differs between E1 and E2 (beyond that field) -- Go-side comparison
      14  a query answers differently on the re-imported chain
    model vs implementation
       1  model validate(E1) differs from the real ValidateGenesis verdict
       2  model import(E1) is undefined although InitChain went through (or the reverse)
       3  model export(import E1) differs from E2
       4  model answers on import(E1) differ from the answers of the re-imported chain
       5  malformed document: model validate differs from the real verdict
       6  the provision recomputed by the model's import differs from the re-imported chain's
       7  live chain: model answers computed from E1 differ from the live chain's answers *)
From stdpp Require Import gmap.
From Coq Require Import ZArith List Bool.
From Canto Require Model.TokenPairs Model.Csr Model.Inflation.
From Canto Require Import Model.Authority Model.Epochs Model.Genesis Check.Common.
Import ListNotations.
Open Scope Z_scope.

(* malformed documents, one module at a time, with the real verdict *)
Inductive bad_doc :=
| BadCs (g : cs_gen) (v : bool)
| BadErc (g : erc_gen) (v : bool)
| BadCsr (g : csr_gen) (v : bool)
| BadInf (g : inf_gen) (v : bool)
| BadEp (g : list epoch) (v : bool)
| BadOnb (g : onb_params) (v : bool).

Record gen_case := mkCase {
  k_ctx : ictx;
  k_e1 : genesis;
  k_valid : list bool;          (* the seven real verdicts on E1 *)
  k_imported : bool;
  k_e2 : genesis;
  k_raw : list bool;            (* per module: raw JSON equal modulo the exempt field *)
  k_probes : probes;
  k_q1 : answers;
  k_q2 : answers;
  k_prov2 : Z;                  (* EpochMintProvision of the re-imported chain *)
  k_bad : list bad_doc;
  k_last : Z                    (* index of the last operation of the history (-1: none) *)
}.

(* monomorphic constructors for the generated case files *)
Definition PID (a : Z) (t : TokenPairs.tok) : TokenPairs.pid := (a, t).
Definition DIX (d : TokenPairs.tok) (i : TokenPairs.pid) : TokenPairs.tok * TokenPairs.pid := (d, i).
Definition AIX (a : Z) (i : TokenPairs.pid) : Z * TokenPairs.pid := (a, i).
Definition NoPair : option TokenPairs.pair := None.
Definition SoPair (p : TokenPairs.pair) : option TokenPairs.pair := Some p.
Definition NCSR (n : Z) (cs : list Z) (txs rev : Z) : Z * Csr.csr := (n, Csr.mkCsr cs txs rev).
Definition NoCsr : option Csr.csr := None.
Definition SoCsrOf (x : Z * Csr.csr) : option Csr.csr := Some (snd x).
Definition NoNCsr : option (Z * Csr.csr) := None.
Definition SoNCsr (x : Z * Csr.csr) : option (Z * Csr.csr) := Some x.
Definition NoPool : option gpool := None.
Definition SoPool (p : gpool) : option gpool := Some p.

(** * Boolean equalities *)
Definition beq {A} `{EqDecision A} (x y : A) : bool := bool_decide (x = y).
Definition subset_b {A} (eqb : A -> A -> bool) (l1 l2 : list A) : bool :=
  forallb (fun x => existsb (eqb x) l2) l1.
Definition same_set {A} (eqb : A -> A -> bool) (l1 l2 : list A) : bool :=
  (Z.of_nat (length l1) =? Z.of_nat (length l2)) && subset_b eqb l1 l2 && subset_b eqb l2 l1.

Definition optz_eqb (a b : option Z) : bool := opt_eqb Z.eqb a b.

Definition gpool_eqb (a b : gpool) : bool :=
  (gp_id a =? gp_id b) && (gp_std a =? gp_std b) && Bool.eqb (gp_std_ok a) (gp_std_ok b) &&
  (gp_tok a =? gp_tok b) && Bool.eqb (gp_tok_ok a) (gp_tok_ok b) &&
  (gp_escrow a =? gp_escrow b) && Bool.eqb (gp_escrow_ok a) (gp_escrow_ok b) &&
  (gp_lpt a =? gp_lpt b) && optz_eqb (gp_seq a) (gp_seq b).

Definition cs_gen_eqb (a b : cs_gen) : bool :=
  cs_eqb (cg_params a) (cg_params b) && (cg_std a =? cg_std b) && Bool.eqb (cg_std_ok a) (cg_std_ok b) &&
  same_set gpool_eqb (cg_pools a) (cg_pools b) && (cg_seq a =? cg_seq b).

Definition erc_gen_eqb (a b : erc_gen) : bool :=
  erc_eqb (eg_params a) (eg_params b) && same_set beq (eg_pairs a) (eg_pairs b) &&
  same_set beq (eg_denoms a) (eg_denoms b) && same_set beq (eg_addrs a) (eg_addrs b) &&
  Bool.eqb (eg_syntax_ok a) (eg_syntax_ok b).

Definition ncsr_eqb (a b : Z * Csr.csr) : bool := (fst a =? fst b) && Csr.csr_eqb (snd a) (snd b).
Definition csr_gen_eqb (a b : csr_gen) : bool :=
  csr_eqb (rg_params a) (rg_params b) && same_set ncsr_eqb (rg_csrs a) (rg_csrs b) &&
  optz_eqb (rg_turnstile a) (rg_turnstile b).

Definition inf_gen_eqb (a b : inf_gen) : bool :=
  inf_eqb (ig_params a) (ig_params b) && (ig_period a =? ig_period b) && (ig_ident a =? ig_ident b) &&
  (ig_epp a =? ig_epp b) && (ig_skipped a =? ig_skipped b).

Definition ep_gen_eqb (a b : list epoch) : bool :=
  list_eqb epoch_eqb (map mask_epoch a) (map mask_epoch b).

(* per module: equal modulo the exemption *)
Definition gen_diffs (c st code : Z) (a b : genesis) : list diff :=
  report (cs_gen_eqb (g_cs a) (g_cs b)) c st (code * 10 + 0) ++
  report (erc_gen_eqb (g_erc a) (g_erc b)) c st (code * 10 + 1) ++
  report (csr_gen_eqb (g_csr a) (g_csr b)) c st (code * 10 + 2) ++
  report (inf_gen_eqb (g_inf a) (g_inf b)) c st (code * 10 + 3) ++
  report (ep_gen_eqb (g_ep a) (g_ep b)) c st (code * 10 + 4) ++
  report (optz_eqb (g_gs a) (g_gs b)) c st (code * 10 + 5) ++
  report (onb_eqb (g_onb a) (g_onb b)) c st (code * 10 + 6).

Definition optpool_eqb := opt_eqb gpool_eqb.
Definition optpair_eqb (a b : option TokenPairs.pair) : bool := beq a b.
Definition optcsr_eqb := opt_eqb Csr.csr_eqb.
Definition optncsr_eqb := opt_eqb ncsr_eqb.

Definition ans_diffs (c st code : Z) (a b : answers) : list diff :=
  report (same_set gpool_eqb (a_pools a) (a_pools b)) c st (code * 100 + 0) ++
  report (list_eqb optpool_eqb (a_pool_by_lpt a) (a_pool_by_lpt b)) c st (code * 100 + 1) ++
  report (cs_eqb (a_cs_params a) (a_cs_params b)) c st (code * 100 + 2) ++
  report (same_set beq (a_pairs a) (a_pairs b)) c st (code * 100 + 3) ++
  report (list_eqb optpair_eqb (a_pair_by_tok a) (a_pair_by_tok b)) c st (code * 100 + 4) ++
  report (list_eqb optpair_eqb (a_pair_by_id a) (a_pair_by_id b)) c st (code * 100 + 5) ++
  report (erc_eqb (a_erc_params a) (a_erc_params b)) c st (code * 100 + 6) ++
  report (same_set ncsr_eqb (a_csrs a) (a_csrs b)) c st (code * 100 + 7) ++
  report (list_eqb optcsr_eqb (a_csr_by_nft a) (a_csr_by_nft b)) c st (code * 100 + 8) ++
  report (list_eqb optncsr_eqb (a_csr_by_contract a) (a_csr_by_contract b)) c st (code * 100 + 9) ++
  report (optz_eqb (a_turnstile a) (a_turnstile b)) c st (code * 100 + 10) ++
  report (csr_eqb (a_csr_params a) (a_csr_params b)) c st (code * 100 + 11) ++
  report (optz_eqb (a_port a) (a_port b)) c st (code * 100 + 12) ++
  report (list_eqb epoch_eqb (a_epochs a) (a_epochs b)) c st (code * 100 + 13) ++
  report (list_eqb optz_eqb (a_current a) (a_current b)) c st (code * 100 + 14) ++
  report (a_period a =? a_period b) c st (code * 100 + 15) ++
  report (a_skipped a =? a_skipped b) c st (code * 100 + 16) ++
  report (a_epp a =? a_epp b) c st (code * 100 + 17) ++
  report (a_ident a =? a_ident b) c st (code * 100 + 18) ++
  report (inf_eqb (a_inf_params a) (a_inf_params b)) c st (code * 100 + 19) ++
  report (onb_eqb (a_onb_params a) (a_onb_params b)) c st (code * 100 + 20).

(* the seven model verdicts *)
Definition verdicts (g : genesis) : list bool :=
  [validate_cs (g_cs g); validate_erc (g_erc g); validate_csr (g_csr g); validate_inf (g_inf g);
   validate_ep (g_ep g); validate_gs (g_gs g); validate_onb (g_onb g)].

Fixpoint flags_diffs (c st i code : Z) (want : list bool) (l : list bool) : list diff :=
  match want, l with
  | w :: wr, x :: r => report (Bool.eqb w x) c st (code * 10 + i) ++ flags_diffs c st (i + 1) code wr r
  | [], [] => []
  | _, _ => [(c, st, code * 10 + i)]
  end.

Definition bad_diffs (c : Z) (st : Z) (d : bad_doc) : list diff :=
  match d with
  | BadCs g v => report (Bool.eqb (validate_cs g) v) c st 50
  | BadErc g v => report (Bool.eqb (validate_erc g) v) c st 50
  | BadCsr g v => report (Bool.eqb (validate_csr g) v) c st 50
  | BadInf g v => report (Bool.eqb (validate_inf g) v) c st 50
  | BadEp g v => report (Bool.eqb (validate_ep g) v) c st 50
  | BadOnb g v => report (Bool.eqb (validate_onb g) v) c st 50
  end.
Fixpoint bads_diffs (c st : Z) (l : list bad_doc) : list diff :=
  match l with [] => [] | d :: r => bad_diffs c st d ++ bads_diffs c st r end.

Definition seven_true : list bool := [true; true; true; true; true; true; true].

Definition check_case (c : Z) (k : gen_case) : list diff :=
  let st := k_last k in
  (* monitors *)
  flags_diffs c st 0 10 seven_true (k_valid k) ++
  report (k_imported k) c st 110 ++
  (if k_imported k then
     gen_diffs c st 12 (k_e1 k) (k_e2 k) ++
     flags_diffs c st 0 13 seven_true (k_raw k) ++
     ans_diffs c st 14 (k_q1 k) (k_q2 k)
   else []) ++
  (* correspondence *)
  flags_diffs c st 0 1 (verdicts (k_e1 k)) (k_valid k) ++
  match import (k_ctx k) (k_e1 k) with
  | None => report (negb (k_imported k)) c st 20
  | Some s' =>
      report (k_imported k) c st 20 ++
      (if k_imported k then
         gen_diffs c st 3 (export s') (k_e2 k) ++
         ans_diffs c st 4 (answer (k_probes k) s') (k_q2 k) ++
         report (is_prov (s_inf s') =? k_prov2 k) c st 60 ++
         ans_diffs c st 7 (answer (k_probes k) s') (k_q1 k)
       else [])
  end ++
  bads_diffs c st (k_bad k).
