(** Library-level correspondence: the partial operations of [Lib/SdkInt.v] and
    [Lib/SdkDec.v] against the real cosmossdk.io/math (sdkmath.Int and
    sdkmath.LegacyDec) that /repo is built with.  The harness (harness/lib.go)
    draws operands (random, edge, overflow thresholds), runs the real
    operation with [recover], and records the result ([None] = panic).  *)
From Coq Require Import ZArith NArith List Bool.
From Canto Require Import Lib.SdkInt Lib.SdkDec Check.Common.
Import ListNotations.
Open Scope Z_scope.

Inductive libop :=
| IAdd (a b : Z) | ISub (a b : Z) | IMul (a b : Z) | IQuo (a b : Z)
| IOfBig (a : Z) | IWithDec (n d : Z)
| DAdd (a b : Z) | DSub (a b : Z) | DMul (a b : Z) | DQuo (a b : Z)
| DMulInt (a i : Z) | DQuoInt (a i : Z) | DTrunc (a : Z) | DOfInt (i : Z)
| DMin (a b : Z) | DPow (d : Z) (n : N).

Definition is_int_op (o : libop) : bool :=
  match o with
  | IAdd _ _ | ISub _ _ | IMul _ _ | IQuo _ _ | IOfBig _ | IWithDec _ _ => true
  | _ => false
  end.

Definition eval (o : libop) : option Z :=
  match o with
  | IAdd a b => SdkInt.add a b
  | ISub a b => SdkInt.sub a b
  | IMul a b => SdkInt.mul a b
  | IQuo a b => SdkInt.quo a b
  | IOfBig a => SdkInt.of_big a
  | IWithDec n d => SdkInt.with_decimal n d
  | DAdd a b => SdkDec.add a b
  | DSub a b => SdkDec.sub a b
  | DMul a b => SdkDec.mul a b
  | DQuo a b => SdkDec.quo a b
  | DMulInt a i => SdkDec.mul_int a i
  | DQuoInt a i => SdkDec.quo_int a i
  | DTrunc a => SdkDec.truncate_int a
  | DOfInt i => Some (SdkDec.of_int i)
  | DMin a b => Some (SdkDec.min a b)
  | DPow d n => SdkDec.power_chk d n
  end.

(* a case: operations with the result observed on the real library *)
Definition lib_case := list (libop * option Z).

(* codes: 1 = sdkmath.Int operation differs from SdkInt; 2 = sdkmath.LegacyDec operation differs from SdkDec;
          3 = unchecked power differs from checked power on a run without overflow *)
Fixpoint check_ops (c i : Z) (l : lib_case) : list diff :=
  match l with
  | [] => []
  | (o, r) :: rest =>
      report (opt_eqb Z.eqb (eval o) r) c i (if is_int_op o then 1 else 2) ++
      (match o, r with
       | DPow d n, Some v => report (SdkDec.power d n =? v) c i 3
       | _, _ => []
       end) ++
      check_ops c (i + 1) rest
  end.

Definition check_case (c : Z) (k : lib_case) : list diff := check_ops c 0 k.
