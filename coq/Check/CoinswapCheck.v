(** Correspondence checker and monitors for x/coinswap (C01 C02 C08 C09).

    The harness ships, per case, the observed initial state and, per step,
    the block time, the message, the implementation's result and the observed
    changes.  For every step the checker
      (a) runs the model from the implementation's own pre-state and compares
          result class, response and the complete projected post-state, and
      (b) evaluates the monitors -- boolean forms of the theorems'
          conclusions -- on the implementation's pre/post states alone
          (they do not call the model's [exec]). *)
From Coq Require Import ZArith List Bool.
From Canto Require Import Lib.SdkInt Lib.SdkDec Model.Coinswap Check.Common.
Import ListNotations.
Open Scope Z_scope.

(** observed state: association lists (first match wins), default 0 *)
Record obs := mkObs {
  o_params : params;
  o_next : Z;
  o_pools : list (Z * Z);
  o_bal : list (acct * denom * Z);
  o_sup : list (denom * Z)
}.

Fixpoint bal_lookup (l : list (acct * denom * Z)) (a : acct) (d : denom) : Z :=
  match l with
  | [] => 0
  | (a', d', v) :: r => if acct_eqb a a' && denom_eqb d d' then v else bal_lookup r a d
  end.
Fixpoint sup_lookup (l : list (denom * Z)) (d : denom) : Z :=
  match l with
  | [] => 0
  | (d', v) :: r => if denom_eqb d d' then v else sup_lookup r d
  end.

Definition state_of (o : obs) : state :=
  mkState (o_params o) (o_next o) (o_pools o) (bal_lookup (o_bal o)) (sup_lookup (o_sup o)).

(** per-step record sent by the harness *)
Record step := mkStep {
  sp_now : Z;
  sp_op : op;
  sp_res : option (list Z);                  (* None = rejected; Some response numbers *)
  sp_params : option params;                 (* new params when they changed *)
  sp_next : Z;
  sp_pools : list (Z * Z);
  sp_bal : list (acct * denom * Z);          (* changed balances (new values) *)
  sp_sup : list (denom * Z)                  (* changed supplies (new values) *)
}.

Definition apply_step (o : obs) (st : step) : obs :=
  mkObs (match sp_params st with Some p => p | None => o_params o end)
        (sp_next st) (sp_pools st) (sp_bal st ++ o_bal o) (sp_sup st ++ o_sup o).

Record cs_case := mkCsCase {
  cc_accts : list acct;       (* the universe of tracked accounts *)
  cc_denoms : list denom;     (* the universe of tracked denominations *)
  cc_init : obs;
  cc_steps : list step
}.

(** * equality of projections *)
Fixpoint wl_eqb (a b : list (denom * Z)) : bool :=
  match a, b with
  | [], [] => true
  | (d, v) :: r, (d', v') :: r' => denom_eqb d d' && (v =? v') && wl_eqb r r'
  | _, _ => false
  end.
Definition params_eqb (p q : params) : bool :=
  (p_fee p =? p_fee q) && denom_eqb (p_cfee_denom p) (p_cfee_denom q) && (p_cfee_amt p =? p_cfee_amt q) &&
  (p_tax p =? p_tax q) && (p_cap p =? p_cap q) && wl_eqb (p_wl p) (p_wl q).
Fixpoint pools_eqb (a b : list (Z * Z)) : bool :=
  match a, b with
  | [], [] => true
  | (n, q) :: r, (n', q') :: r' => (n =? n') && (q =? q') && pools_eqb r r'
  | _, _ => false
  end.
Definition bank_eqb (accts : list acct) (denoms : list denom) (s1 s2 : state) : bool :=
  forallb (fun a => forallb (fun d => st_bal s1 a d =? st_bal s2 a d) denoms) accts &&
  forallb (fun d => st_sup s1 d =? st_sup s2 d) denoms.
Definition state_eqb (accts : list acct) (denoms : list denom) (s1 s2 : state) : bool :=
  params_eqb (st_params s1) (st_params s2) && (st_next s1 =? st_next s2) &&
  pools_eqb (st_pools s1) (st_pools s2) && bank_eqb accts denoms s1 s2.

(** * monitors (on the implementation's states b = before, a = after) *)
Definition X (s : state) (seq : Z) : Z := st_bal s (Escrow seq) Std.
Definition Y (s : state) (seq n : Z) : Z := st_bal s (Escrow seq) (Tok n).
Definition Lq (s : state) (seq : Z) : Z := st_sup s (Lpt seq).
Definition dbal (b a : state) (x : acct) (d : denom) : Z := st_bal a x d - st_bal b x d.
Definition dsup (b a : state) (d : denom) : Z := st_sup a d - st_sup b d.

(* C01: value per share never decreases, for every pool with outstanding tokens *)
Definition mon_value (b a : state) : bool :=
  forallb (fun e : Z * Z => let (n, seq) := e in
    if (0 <? Lq b seq) && (0 <? Lq a seq)
    then X b seq * Y b seq n * (Lq a seq * Lq a seq) <=? X a seq * Y a seq n * (Lq b seq * Lq b seq)
    else true) (st_pools b).

(* C01: a removal never pays more than the pro-rata share *)
Definition mon_prorata (b : state) (o : op) (res : option (list Z)) : bool :=
  match o, res with
  | RemoveLiq _ (Lpt seq) w _ _ _, Some [ps; pt] =>
      match lookup_seq seq (st_pools b) with
      | Some n => (ps * Lq b seq <=? w * X b seq) && (pt * Lq b seq <=? w * Y b seq n)
      | None => false
      end
  | _, _ => true
  end.

(* C02: a rejected message changes nothing *)
Definition mon_rejected (accts : list acct) (denoms : list denom) (b a : state) (res : option (list Z)) : bool :=
  match res with None => state_eqb accts denoms b a | Some _ => true end.

Definition pool_seq_of (s : state) (d1 d2 : denom) : option Z := pool_of s d1 d2.
Definition in_accts (x : acct) (l : list acct) : bool := existsb (acct_eqb x) l.
Definition sumZ (l : list Z) : Z := fold_left Z.add l 0.

(* C02: value conservation of an accepted message *)
Definition mon_conserve (accts : list acct) (denoms : list denom) (b a : state) (o : op) (res : option (list Z)) : bool :=
  match res with
  | None => true
  | Some resp =>
    let p := st_params b in
    (* which accounts may change, and the expected supply change per denomination *)
    let '(involved, exp_dsup, fee_collector_gain) :=
      match o with
      | Sell sender rec din _ dout _ _ | Buy sender rec din _ dout _ _ =>
          (User sender :: rec :: match pool_of b din dout with Some q => [Escrow q] | None => [] end,
           (fun _ : denom => 0), 0)
      | AutoSwap who din _ _ =>
          (User who :: match pool_of b din Std with Some q => [Escrow q] | None => [] end, (fun _ : denom => 0), 0)
      | Donate from to _ _ => ([User from; to], (fun _ : denom => 0), 0)
      | AddLiq sender (Tok n) _ _ _ _ =>
          let created := match lookup_pool n (st_pools b) with None => true | Some _ => false end in
          let seq := match lookup_pool n (st_pools a) with Some q => q | None => -1 end in
          let tax := match tax_part (p_cfee_amt p) (p_tax p) with Some t => t | None => 0 end in
          let minted := match resp with [m] => m | _ => -1 end in
          ([User sender; Escrow seq],
           (fun d => (if denom_eqb d (Lpt seq) then minted else 0) +
                     (if created && denom_eqb d (p_cfee_denom p) then - (p_cfee_amt p - tax) else 0)),
           if created then tax else 0)
      | RemoveLiq sender (Lpt seq) w _ _ _ =>
          ([User sender; Escrow seq], (fun d => if denom_eqb d (Lpt seq) then - w else 0), 0)
      | _ => ([], (fun _ : denom => 0), 0)
      end in
    (* supplies change exactly as expected *)
    forallb (fun d => dsup b a d =? exp_dsup d) denoms &&
    (* bank consistency over the tracked accounts: sum of balance changes = supply change *)
    forallb (fun d => sumZ (map (fun x => dbal b a x d) accts) =? dsup b a d) denoms &&
    (* nobody else is touched; the coinswap module account keeps nothing; the fee collector gets exactly the tax *)
    forallb (fun x =>
      if in_accts x involved then true
      else forallb (fun d =>
             if acct_eqb x M_feecollector && denom_eqb d (p_cfee_denom p)
             then dbal b a x d =? fee_collector_gain else dbal b a x d =? 0) denoms) accts
  end.

Definition S18 : Z := SdkDec.one.

(* C08: limits, deadlines, quoted amounts, responses *)
Definition mon_limits (now : Z) (b a : state) (o : op) (res : option (list Z)) : bool :=
  match res with
  | None => true
  | Some resp =>
    let g := S18 - p_fee (st_params b) in
    match o with
    | Sell sender rec din ain dout min_out dl =>
        match pool_of b din dout with
        | None => false
        | Some q =>
          let esc := Escrow q in
          let inres := st_bal b esc din in let outres := st_bal b esc dout in
          negb (expired now dl) &&
          (dbal b a (User sender) din =? - ain) &&                      (* exactly the stated input *)
          (if acct_eqb rec esc then true else
             let out := - dbal b a esc dout in
             (dbal b a esc din =? ain) &&
             (dbal b a rec dout =? out) &&                                (* delivered to the recipient *)
             (min_out <=? out) &&                                         (* at least the stated minimum *)
             (out * (inres * S18 + ain * g) <=? ain * g * outres) &&     (* within one unit of the exact value, *)
             (ain * g * outres <? (out + 1) * (inres * S18 + ain * g)))  (* rounded in the pool's favour *)
        end
    | Buy sender rec din max_in dout aout dl =>
        match pool_of b din dout with
        | None => false
        | Some q =>
          let esc := Escrow q in
          let inres := st_bal b esc din in let outres := st_bal b esc dout in
          let sold := - dbal b a (User sender) din in
          negb (expired now dl) &&
          (sold <=? max_in) && (0 <? sold) &&                              (* at most the stated maximum *)
          (if acct_eqb rec esc then true else
             (dbal b a rec dout =? aout) &&                                (* exactly the stated output *)
             (dbal b a esc dout =? - aout) && (dbal b a esc din =? sold) &&
             ((sold - 1) * ((outres - aout) * g) <=? inres * aout * S18) &&
             (inres * aout * S18 <? sold * ((outres - aout) * g)))
        end
    | AddLiq sender (Tok n) max_tok exact_std min_liq dl =>
        match lookup_pool n (st_pools a), resp with
        | Some q, [m] =>
          let esc := Escrow q in
          let std_in := dbal b a esc Std in let dep := dbal b a esc (Tok n) in
          negb (expired now dl) &&
          (dep <=? max_tok) && (std_in <=? exact_std) && (min_liq <=? m) &&
          (0 <? std_in) && (0 <? dep) &&
          (dsup b a (Lpt q) =? m) &&
          (* the provider is credited what the response reports *)
          (dbal b a (User sender) (Lpt q) =? m) &&
          (if 0 <? Lq b q then
             (* pro-rata within one unit, rounded in the pool's favour *)
             (m * X b q <=? Lq b q * std_in) && (Lq b q * std_in <? (m + 1) * X b q) &&
             ((dep - 1) * X b q <=? Y b q n * std_in) && (Y b q n * std_in <? dep * X b q)
           else (m =? exact_std) && (std_in =? exact_std) && (dep =? max_tok))
        | _, _ => false
        end
    | RemoveLiq sender (Lpt q) w min_std min_tok dl =>
        match lookup_seq q (st_pools b), resp with
        | Some n, [ps; pt] =>
          let esc := Escrow q in
          negb (expired now dl) &&
          (dsup b a (Lpt q) =? - w) && (dbal b a (User sender) (Lpt q) =? - w) &&   (* burns exactly w *)
          (min_std <=? ps) && (min_tok <=? pt) &&
          (dbal b a esc Std =? - ps) && (dbal b a esc (Tok n) =? - pt) &&             (* response = applied change *)
          (ps * Lq b q <=? w * X b q) && (w * X b q <? (ps + 1) * Lq b q) &&
          (pt * Lq b q <=? w * Y b q n) && (w * Y b q n <? (pt + 1) * Lq b q)
        | _, _ => false
        end
    | AddLiq _ _ _ _ _ _ | RemoveLiq _ _ _ _ _ _ => false
    | _ => true
    end
  end.

(* C09: whitelist, per-swap maximum, per-pool cap, no module recipient *)
Definition swap_caps_ok (b a : state) (payer rec : acct) (din dout : denom) (in_exact out_exact : option Z) : bool :=
  (* exactly one side is the standard coin, the other is a whitelisted counter-asset *)
  match din, dout with
  | Std, Tok n | Tok n, Std =>
      match wl_lookup (Tok n) (p_wl (st_params b)) with
      | None => false
      | Some mx =>
          (* the counter-asset leg, as stated in the order or as observed on the payer / recipient *)
          let leg :=
            match din with
            | Tok _ => match in_exact with Some v => v | None => - dbal b a payer din end
            | _ => match out_exact with Some v => v | None => dbal b a rec dout end
            end in
          leg <=? mx
      end
  | _, _ => false
  end.

Definition mon_caps (b a : state) (o : op) (res : option (list Z)) : bool :=
  match res with
  | None => true
  | Some _ =>
    match o with
    | Sell sender rec din ain dout _ _ =>
        negb (is_module rec) &&
        (match pool_of b din dout with Some q => acct_eqb rec (Escrow q) | None => false end ||
         swap_caps_ok b a (User sender) rec din dout (Some ain) None)
    | Buy sender rec din _ dout aout _ =>
        negb (is_module rec) && swap_caps_ok b a (User sender) rec din dout None (Some aout)
    | AutoSwap who din _ thr => swap_caps_ok b a (User who) (User who) din Std None (Some thr)
    | AddLiq sender (Tok n) _ _ _ _ =>
        (0 <? wl_amount (Tok n) (p_wl (st_params b))) &&
        match lookup_pool n (st_pools a) with
        | Some q =>
            let std_in := dbal b a (Escrow q) Std in
            (std_in <=? p_cap (st_params b)) &&
            (if 0 <? Lq b q then std_in <=? p_cap (st_params b) - X b q else true)
        | None => false
        end
    | AddLiq _ _ _ _ _ _ => false
    | _ => true
    end
  end.

(** * the per-case check *)
(* codes: 1 result class differs from the model; 2 response differs; 3 post-state differs;
          10 value monitor; 11 pro-rata monitor; 20 rejected-changed-state; 21 conservation;
          30 limits/quotes/responses; 40 caps *)
Definition resp_eqb (a b : option (list Z)) : bool :=
  match a, b with
  | None, None => true
  | Some x, Some y => zlist_eqb x y
  | _, _ => false
  end.
Definition class_eqb (a b : option (list Z)) : bool :=
  match a, b with None, None | Some _, Some _ => true | _, _ => false end.

Fixpoint check_steps (c i : Z) (accts : list acct) (denoms : list denom) (o : obs) (steps : list step) : list diff :=
  match steps with
  | [] => []
  | st :: r =>
      let b := state_of o in
      let o' := apply_step o st in
      let a := state_of o' in
      let '(m, mres) := deliver (sp_now st) b (sp_op st) in
      report (class_eqb mres (sp_res st)) c i 1 ++
      report (negb (class_eqb mres (sp_res st)) || resp_eqb mres (sp_res st)) c i 2 ++
      report (negb (class_eqb mres (sp_res st)) || state_eqb accts denoms m a) c i 3 ++
      report (mon_value b a) c i 10 ++
      report (mon_prorata b (sp_op st) (sp_res st)) c i 11 ++
      report (mon_rejected accts denoms b a (sp_res st)) c i 20 ++
      report (mon_conserve accts denoms b a (sp_op st) (sp_res st)) c i 21 ++
      report (mon_limits (sp_now st) b a (sp_op st) (sp_res st)) c i 30 ++
      report (mon_caps b a (sp_op st) (sp_res st)) c i 40 ++
      check_steps c (i + 1) accts denoms o' r
  end.

Definition check_case (c : Z) (k : cs_case) : list diff :=
  check_steps c 0 (cc_accts k) (cc_denoms k) (cc_init k) (cc_steps k).
