(** Correspondence checker and monitors for x/govshuttle (C20).

    A case is a history of lending-market / treasury messages executed on the
    real keeper with the real EVM.  After every message the harness reports the
    result class, the port address and, for a fixed list of watched ids, the
    ABI-decoded answer of QueryProp (None = no store yet or the query failed).
    Every step is checked from the implementation's own previous observation. *)
From Coq Require Import ZArith List Bool.
From Canto Require Import Model.Govshuttle Check.Common.
Import ListNotations.
Open Scope Z_scope.

Record gobs := mkObs {
  ob_port : option Z;
  ob_recs : list (Z * option proposal)
}.

Record gstep := mkStep {
  s_op : op;
  s_oracle : oracle;
  s_ok : bool;          (* observed result class *)
  s_post : gobs         (* observed after the message *)
}.

Record gcase := mkCase {
  c_cfg : cfg;
  c_pre : gobs;         (* observed before the first message *)
  c_steps : list gstep
}.

Definition rec_eqb (a b : Z * option proposal) : bool :=
  (fst a =? fst b) && opt_eqb prop_eqb (snd a) (snd b).

Definition obs_eqb (a b : gobs) : bool :=
  opt_eqb Z.eqb (ob_port a) (ob_port b) && lists_eqb rec_eqb (ob_recs a) (ob_recs b).

(* observed answer for id i; a missing answer is None *)
Definition olookup (i : Z) (ob : gobs) : option proposal :=
  match find (fun r => fst r =? i) (ob_recs ob) with
  | Some (_, Some p) => Some p
  | _ => None
  end.

(* what is retrievable under id i: nothing retrievable = the empty record *)
Definition seen (i : Z) (ob : gobs) : proposal :=
  match olookup i ob with Some p => p | None => empty_prop end.

(* the model state that yields the observation *)
Definition state_of (c : cfg) (ob : gobs) : gstate :=
  mkG (ob_port ob) (mkStore (cfg_mod c) (fun i => seen i ob)).

(* the observation the model state yields *)
Definition model_obs (st : gstate) (ids : list Z) : gobs :=
  mkObs (g_port st)
        (map (fun i => (i, match g_port st with
                           | Some _ => Some (ps_query (g_store st) i)
                           | None => None
                           end)) ids).

Definition is_some {A} (o : option A) : bool := match o with Some _ => true | None => false end.

(* codes
   1 invalid proposal (lengths / denom / authority / nil metadata) accepted        monitor
   2 rejected proposal changed the port or a record                                monitor
   3 accepted proposal not returned by QueryProp(id') exactly as submitted         monitor
   4 accepted proposal changed the record of another id                            monitor
   5 port address changed, or still unset after an accepted proposal               monitor
   6 valid proposal rejected                                                       mismatch
   7 model post-state differs from the observation (incl. port <> derived address) mismatch *)
Definition check_step (cs i : Z) (c : cfg) (pre : gobs) (s : gstep) : list diff :=
  let x := s_op s in
  let o := s_oracle s in
  let ok := s_ok s in
  let post := s_post s in
  let ids := map fst (ob_recs pre) in
  let id' := op_id o x in
  let '(mok, mst) := step c o x (state_of c pre) in
  report (negb (ok && negb (valid_op c x))) cs i 1 ++
  report (ok || obs_eqb pre post) cs i 2 ++
  report (negb ok || opt_eqb prop_eqb (olookup id' post) (Some (expected_record o x))) cs i 3 ++
  report (negb ok || forallb (fun j => (j =? id') || opt_eqb prop_eqb (olookup j post) (Some (seen j pre))) ids) cs i 4 ++
  report (match ob_port pre with
          | Some a => opt_eqb Z.eqb (ob_port post) (Some a)
          | None => negb ok || is_some (ob_port post)
          end) cs i 5 ++
  report (negb (mok && negb ok)) cs i 6 ++
  report (negb (Bool.eqb mok ok) || obs_eqb (model_obs mst ids) post) cs i 7.

Fixpoint check_steps (cs i : Z) (c : cfg) (pre : gobs) (steps : list gstep) : list diff :=
  match steps with
  | [] => []
  | s :: r => check_step cs i c pre s ++ check_steps cs (i + 1) c (s_post s) r
  end.

Definition check_case (cs : Z) (k : gcase) : list diff :=
  check_steps cs 0 (c_cfg k) (c_pre k) (c_steps k).
