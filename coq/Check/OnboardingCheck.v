(** Correspondence checker and monitors for the onboarding callback (C11).

    A case is a sequence of ICS-20 packets to one recipient, each handed to the
    REAL OnboardingKeeper.OnRecvPacket after the voucher was credited the way
    the transfer module does.  Per packet the harness ships the configuration in
    force, the packet, what the coinswap and erc20 registries said (pool, fee,
    per-swap maximum, pair), the answers the erc20 module received from the EVM
    (the [script] of Model/Convert.v), the result class and the observed
    balances BEFORE THE CREDIT and after the callback.

    Two kinds of findings:
    - mismatch (codes 1-4): the model, started from the implementation's own
      observed pre-state and run on the same EVM answers, differs on result
      class, acknowledgement or the balance projection;
    - monitor (codes 10-18): the property's own predicates evaluated on the
      implementation's observations only (no model function involved). *)
From Coq Require Import ZArith List Bool.
From Canto Require Import Model.Coinswap Model.Onboarding Check.Common.
From Canto Require Model.Convert.
Import ListNotations.
Open Scope Z_scope.

Record obs := mkObs {
  ob_rstd : Z;      (* recipient: standard coin *)
  ob_rv : Z;        (* recipient: the transferred denomination *)
  ob_rother : Z;    (* recipient: an unrelated denomination held before *)
  ob_pstd : Z;      (* pool reserves (0 without pool) *)
  ob_pv : Z;
  ob_mv : Z;        (* erc20 module account: the transferred denomination (escrow of module-owned pairs) *)
  ob_sup : Z;       (* supply of the transferred denomination *)
  ob_xstd : Z;      (* a bystander *)
  ob_xv : Z;
  ob_rtok : Z;      (* ERC-20 side as the REAL contract reports it: recipient, module, totalSupply; -1 = no answer / no pair *)
  ob_mtok : Z;
  ob_tot : Z
}.

Record step := mkStep {
  s_cfg : config;
  s_packet : packet;
  s_pool : option Z;           (* sequence number of the pool of the transferred denomination *)
  s_fee : Z;                   (* coinswap Fee, LegacyDec raw *)
  s_maxswap : option Z;        (* MaxSwapAmount entry of the transferred denomination *)
  s_script : Convert.script;   (* what the erc20 module saw from the EVM *)
  s_pre : obs;                 (* before the credit *)
  s_post : obs;                (* after the callback *)
  s_class : Z;                 (* 0 = an acknowledgement was returned, 2 = panic (the delivering tx is rolled back) *)
  s_ack_same : bool;           (* the acknowledgement returned is the one passed in *)
  s_ack_error : bool;          (* the acknowledgement returned is an error acknowledgement *)
  s_honest : bool;             (* honest contract and untouched EVM answers: the token side is comparable to [Convert.honest] *)
  s_truthful : bool;           (* honest contract and no LYING answer (injected failures allowed): real token balances are meaningful *)
  s_owner : Z                  (* holder of the minter role, in the model's account numbering *)
}.

(* the erc20 module received no usable answer from one of the EVM calls of the conversion *)
Definition is_none {A} (o : option A) : bool := match o with None => true | Some _ => false end.
Definition s_fault (s : step) : bool :=
  let sc := s_script s in
  (negb (Convert.q0_who sc =? -1) && is_none (Convert.q0_ans sc)) ||
  (negb (Convert.call_kind sc =? -1) && is_none (Convert.call_ans sc)) ||
  (negb (Convert.q1_who sc =? -1) && is_none (Convert.q1_ans sc)).

Record onboarding_case := mkOnboardingCase { k_steps : list step }.

Definition bystander : acct := User 99.
Definition other_denom : denom := Tok 99.

Definition rcpt (s : step) : acct :=
  match pk_recipient (s_packet s) with Some r => r | None => User 98 end.
Definition esc_of (s : step) : acct :=
  match s_pool s with Some q => Escrow q | None => Escrow 0 end.

(* the Coinswap.state the observation stands for *)
Definition bal_of (s : step) (o : obs) : acct -> denom -> Z :=
  fun a dd =>
    let d := pk_denom (s_packet s) in
    if denom_eqb dd Std then
      if acct_eqb a (rcpt s) then ob_rstd o else if acct_eqb a (esc_of s) then ob_pstd o
      else if acct_eqb a bystander then ob_xstd o
      else if denom_eqb d Std && acct_eqb a M_erc20 then ob_mv o   (* the packet carries the standard coin itself: [ob_mv] is a standard-coin balance *)
      else 0
    else if denom_eqb dd d then
      if acct_eqb a (rcpt s) then ob_rv o else if acct_eqb a (esc_of s) then ob_pv o
      else if acct_eqb a M_erc20 then ob_mv o else if acct_eqb a bystander then ob_xv o else 0
    else if denom_eqb dd other_denom then (if acct_eqb a (rcpt s) then ob_rother o else 0)
    else 0.

Definition state_of (s : step) (o : obs) : state :=
  let d := pk_denom (s_packet s) in
  let tokn := match d with Tok n => n | _ => -1 end in
  mkState (mkParams (s_fee s) Std 0 0 1
                    (match s_maxswap s with Some m => [(d, m)] | None => [] end))
          100
          (match s_pool s with Some q => [(tokn, q)] | None => [] end)
          (bal_of s o)
          (fun dd => if denom_eqb dd d then ob_sup o else 0).

(* the bank projection of a model state, in the shape of an observation (token side copied) *)
Definition proj (s : step) (cs : state) (tok : Z * Z * Z) : obs :=
  let d := pk_denom (s_packet s) in
  mkObs (st_bal cs (rcpt s) Std) (st_bal cs (rcpt s) d) (st_bal cs (rcpt s) other_denom)
        (st_bal cs (esc_of s) Std) (st_bal cs (esc_of s) d)
        (st_bal cs M_erc20 d) (st_sup cs d)
        (st_bal cs bystander Std) (st_bal cs bystander d)
        (fst (fst tok)) (snd (fst tok)) (snd tok).

Definition bank_eqb (a b : obs) : bool :=
  (ob_rstd a =? ob_rstd b) && (ob_rv a =? ob_rv b) && (ob_rother a =? ob_rother b) &&
  (ob_pstd a =? ob_pstd b) && (ob_pv a =? ob_pv b) && (ob_mv a =? ob_mv b) && (ob_sup a =? ob_sup b) &&
  (ob_xstd a =? ob_xstd b) && (ob_xv a =? ob_xv b).
Definition tok_eqb (a b : obs) : bool :=
  (ob_rtok a =? ob_rtok b) && (ob_mtok a =? ob_mtok b) && (ob_tot a =? ob_tot b).

Definition ack_ok (s : step) (r : option receipt) : bool :=
  match r with
  | Some rep => match r_ack rep with
                | AckOriginal => s_ack_same s && negb (s_ack_error s)
                | AckError => s_ack_error s
                end
  | None => true
  end.

(** ** the model on the recorded EVM answers *)
Definition check_scripted (s : step) (ci i : Z) : list diff :=
  let E := Convert.scripted MZ (s_script s) in
  let '(s', r) := recv E (s_cfg s) (s_packet s) (@mkO E (state_of s (s_pre s)) 0) in
  report ((match r with Some _ => 0 | None => 2 end) =? s_class s) ci i 1 ++
  report (negb (s_class s =? 0) || ack_ok s r) ci i 2 ++
  report (bank_eqb (proj s (o_cs s') (0, 0, 0)) (s_post s)) ci i 3.

(** ** the model with the honest contract *)
Definition tokens_of (s : step) (o : obs) : Convert.hledger :=
  Convert.mkH (fun a => if a =? enc (rcpt s) then ob_rtok o else if a =? MZ then ob_mtok o else 0)
              (ob_tot o) (s_owner s) false.

Definition check_honest (s : step) (ci i : Z) : list diff :=
  if negb (s_honest s) then [] else
  let '(s', r) := recv (Convert.honest MZ) (s_cfg s) (s_packet s) (@mkO (Convert.honest MZ) (state_of s (s_pre s)) (tokens_of s (s_pre s))) in
  let h := o_evm s' in
  report (bank_eqb (proj s (o_cs s') (0, 0, 0)) (s_post s) &&
          tok_eqb (proj s (o_cs s') (Convert.tbal h (enc (rcpt s)), Convert.tbal h MZ, Convert.total h)) (s_post s)) ci i 4.

(** ** monitors: the property on the implementation's observations *)
Definition is_native_coin (s : step) : bool :=
  match pk_pair (s_packet s) with PairOn Convert.NativeERC20 _ _ _ => false | _ => true end.

Definition monitors (s : step) (ci i : Z) : list diff :=
  let p := s_pre s in let q := s_post s in
  let pk := s_packet s in
  let amt := pk_amount pk in
  let thr := c_threshold (s_cfg s) in
  let credited := match pk_recipient pk with Some _ => true | None => false end in
  let answered := s_class s =? 0 in
  (* measured on balances; the supply was raised by the credit *)
  let swapped := ob_pv q - ob_pv p in
  let left := ob_rv q - ob_rv p in
  let converted := if is_native_coin s then ob_mv q - ob_mv p else ob_sup p + amt - ob_sup q in
  let std_gain := ob_rstd q - ob_rstd p in
  let separate := negb (denom_eqb (pk_denom pk) Std) && negb (acct_eqb (rcpt s) M_erc20) in
  let guarded := negb (c_enabled (s_cfg s)) || negb (whitelisted (s_cfg s) (pk_channel pk)) ||
                 match pk_recipient pk with Some r => is_module r | None => true end in
  if negb answered then
    (* the delivering transaction is rolled back: nothing at all may remain *)
    report (bank_eqb p q && tok_eqb p q) ci i 18
  else if negb credited then
    report (bank_eqb p q && tok_eqb p q) ci i 14
  else if negb separate then [] else
  (* accounting *)
  report ((swapped + converted + left =? amt) && (0 <=? swapped) && (0 <=? converted) && (0 <=? left)) ci i 10 ++
  (* prior balances *)
  report ((ob_rv p <=? ob_rv q) && (ob_rstd p <=? ob_rstd q) && (ob_rother q =? ob_rother p) &&
          (negb (s_truthful s) || (ob_rtok p <=? ob_rtok q))) ci i 11 ++
  (* a swap only below the threshold, and then exactly the threshold, paid by the pool *)
  report (((swapped =? 0) && (std_gain =? 0)) ||
          ((ob_rstd p <? thr) && (std_gain =? thr) && (0 <? swapped) && (swapped <=? amt))) ci i 12 ++
  (* no partial swap: pool and recipient move together *)
  report ((ob_pstd q =? ob_pstd p - std_gain) && ((swapped =? 0) || (std_gain =? thr))) ci i 13 ++
  (* guards *)
  report (negb guarded || ((swapped =? 0) && (converted =? 0) && (left =? amt) && (std_gain =? 0) &&
                           (ob_pstd q =? ob_pstd p) && (ob_sup q =? ob_sup p + amt) && tok_eqb p q)) ci i 14 ++
  (* conversion all-or-nothing; never when a call of the conversion failed; token side follows *)
  report (((converted =? 0) || (converted =? amt - swapped)) &&
          (negb (s_fault s) || (converted =? 0)) &&
          (negb (s_truthful s) || ((ob_rtok q - ob_rtok p =? converted) &&
                                   (if is_native_coin s then (ob_tot q - ob_tot p =? converted) && (ob_mtok q =? ob_mtok p)
                                    else (ob_tot q =? ob_tot p) && (ob_mtok p - ob_mtok q =? converted))))) ci i 15 ++
  (* acknowledgement *)
  report (negb (pk_sender_ok pk) || (s_ack_same s && negb (s_ack_error s))) ci i 16 ++
  (* bystander and supply *)
  report ((ob_xstd q =? ob_xstd p) && (ob_xv q =? ob_xv p) &&
          (ob_sup q =? ob_sup p + amt - (if is_native_coin s then 0 else converted))) ci i 17.

Fixpoint check_steps (ci i : Z) (ss : list step) : list diff :=
  match ss with
  | [] => []
  | s :: r => check_scripted s ci i ++ check_honest s ci i ++ monitors s ci i ++ check_steps ci (i + 1) r
  end.

Definition check_case (ci : Z) (k : onboarding_case) : list diff := check_steps ci 0 (k_steps k).
