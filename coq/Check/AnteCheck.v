(** Correspondence checker for transaction admission (C19).

    A case is a batch of transactions that the harness built with the application's real TxConfig
    and pushed through the application's own CheckTx, together with
      - the tables the harness re-extracted (go/ast) from app/ante/ante.go, app/ante/handler_options.go
        and app/app.go of the source tree under test,
      - the oracle inputs of the model: which extension-option types the application's interface
        registry knows, whether the vesting messages are registered, and which unmodelled checks
        reject the transactions of this batch by construction (they are unsigned; the Ethereum
        sender has no funds).

    Response codes (codespace "sdk"), measured through CheckTx on the pinned tree:
       0  admitted
       2  ErrTxDecode: an Any that the interface registry cannot resolve (unregistered extension
          option, any message type the app does not register - in Canto the three vesting messages)
      18  ErrInvalidRequest: "must contain at least one message" (baseapp, before the ante handler);
          on the Ethereum chain "for eth tx length of ExtensionOptions should be 1"
      31  ErrUnknownExtensionOptions: the default clause of the switch (reached by the registered
          dynamic-fee option)
      29  ErrInvalidType: RejectMessagesDecorator
       4  ErrUnauthorized: AuthzLimiterDecorator (and every failure inside EIP-712 signature
          verification, which wraps its errors)
       6  ErrUnknownRequest: a non-Ethereum message on the Ethereum chain
      15  ErrNoSignatures: auth ValidateBasicDecorator on an unsigned transaction = the transaction
          passed both leading decorators of a Cosmos chain
       5  ErrInsufficientFunds: EthAccountVerificationDecorator on a correctly signed MsgEthereumTx
          of an unfunded sender = passed EthValidateBasic and Ethereum signature verification
      11  ErrOutOfGas "tx gas exceeds block gas limit (0)": EthGasConsumeDecorator on a correctly
          signed MsgEthereumTx of a funded sender (signed stream).  app.Setup starts the chain with
          Block.MaxGas = -1, which ethermint's BlockGasLimit turns into 0, so no Ethereum
          transaction gets further than this in the test application; it has then passed
          EthValidateBasic, signature and account verification and CanTransfer.

    The signed stream (cases whose oracle list does not name the signature-presence check): code 0
    on the plain and EIP-712 routes is real admission by CheckTx; a second option behind the web3
    option is then refused with 4 from inside EIP-712 signature verification.

    Diff codes:
       1..6  an extracted table differs from the reference the theorems are stated about
      10     response code differs from the model's
      11     response code outside the table above
      20..25 the property's own predicates, evaluated on what the implementation did. *)
From Coq Require Import ZArith List Bool String.
From Canto Require Import Model.Ante Check.Common.
Import ListNotations.
Open Scope string_scope.
Open Scope list_scope.
Open Scope Z_scope.

Record ante_case := mkAnteCase {
  ac_tables : tables;                       (* extracted from the source at run time *)
  ac_ext_registered : list string;          (* ListImplementations(TxExtensionOptionI) *)
  ac_vest_registered : bool;
  ac_oracle_rejects : list string;          (* decorators whose unmodelled checks reject this batch *)
  ac_txs : list (list string * list msg * Z)  (* option type URLs, message forest, observed code *)
}.

Definition code_of (v : verdict) : Z :=
  match v with
  | Accept => 0
  | Reject RUndecodable => 2
  | Reject RNoMsgs => 18
  | Reject RUnknownExt => 31
  | Reject REthMsgOutside => 29
  | Reject RAuthz => 4
  | Reject REthOptCount => 18
  | Reject REthNonEthMsg => 6
  | Reject REipOptCount => 4
  | Reject (ROracle d) =>
      if (d =? d_validate_basic)%string then 15
      else if (d =? d_eth_account)%string then 5
      else if (d =? d_eip712_sig)%string then 4
      else if (d =? d_eth_fee)%string then 11
      else -1
  end.

Definition known_code (c : Z) : bool :=
  existsb (Z.eqb c) [0; 2; 4; 5; 6; 11; 15; 18; 29; 31].

(* the implementation let the transaction past the structural gate *)
Definition passed (c : Z) : bool := existsb (Z.eqb c) [0; 5; 11; 15].

Definition first_is (u : string) (opts : list string) : bool :=
  match opts with o :: _ => (o =? u)%string | [] => false end.

Definition check_tables (c : Z) (t : tables) : list diff :=
  report (chains_eqb (t_chains t) ref_chains) c (-1) 1 ++
  report ((t_switch_on t =? ref_switch_on)%string) c (-1) 2 ++
  report (pairs_eqb (t_switch t) ref_switch) c (-1) 3 ++
  report ((t_switch_default t =? ref_switch_default)%string) c (-1) 4 ++
  report (slist_eqb (t_plain t) ref_plain) c (-1) 5 ++
  report (slist_eqb (t_disabled t) ref_disabled) c (-1) 6.

Definition check_tx (c i : Z) (e : env) (x : list string * list msg * Z) : list diff :=
  let '(opts, msgs, code) := x in
  let t := mkTx opts msgs in
  let p := passed code in
  (* model vs implementation *)
  report (known_code code) c i 11 ++
  report (code_of (admission e t) =? code) c i 10 ++
  (* the property on the implementation's behaviour *)
  report (negb (p && has_eth msgs && negb (first_is eth_url opts))) c i 20 ++
  report (negb (p && match opts with [] => false | _ :: _ => negb (first_is eth_url opts || first_is web3_url opts) end)) c i 21 ++
  report (negb (p && bad_list msgs false)) c i 22 ++
  report (negb (p && (6 <=? Z.of_nat (depth_list msgs)))) c i 23 ++
  report (negb (p && first_is eth_url opts && negb (Nat.eqb (List.length opts) 1))) c i 24 ++
  (* on the EIP-712 route the count is checked behind the signature: only real admission (0) counts *)
  report (negb ((code =? 0) && first_is web3_url opts && negb (Nat.eqb (List.length opts) 1))) c i 25.

Fixpoint check_txs (c i : Z) (e : env) (l : list (list string * list msg * Z)) : list diff :=
  match l with
  | [] => []
  | x :: r => check_tx c i e x ++ check_txs c (i + 1) e r
  end.

Definition check_case (c : Z) (k : ante_case) : list diff :=
  let e := mkEnv false (ac_ext_registered k) (ac_vest_registered k)
                 (fun d _ => negb (mem d (ac_oracle_rejects k))) in
  check_tables c (ac_tables k) ++ check_txs c 0 e (ac_txs k).
