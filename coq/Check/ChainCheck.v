(** Correspondence checker and monitors for the node model (C06).

    The harness (harness/c06.go) executes one generated block history on four
    instances of the REAL application:
      A  plain (sees nothing but FinalizeBlock + Commit);
      B  re-created from its database (NewCanto on the same DB + LoadLatestVersion)
         at every block boundary;
      C  with gRPC queries, CheckTx (valid and invalid), Simulate and
         PrepareProposal/ProcessProposal interleaved between blocks; the
         generator's dry runs and the observer's reads also go to this replica;
      D  a second quiet node (fresh application run afterwards, no reads at all);
      E  (half of the cases) restarted from its database exactly once, at a random
         boundary: memory built up over several blocks is lost only then.
    In a third of the cases CSR is disabled in genesis and enabled by governance
    during the history, so that csr's BeginBlock deploys the Turnstile inside a
    block ([b_fresh] is the address it yields).
    Per block it records, for each replica, the AppHash and the transaction
    results (as indices into the case's table of distinct byte strings: equal
    index <-> equal bytes), the hash of the exported genesis at the heights
    where an export was taken, and the projection of the observed replica (C)
    after Commit -- by the monitors its AppHash is that of the quiet replicas.

    MONITORS (on implementation observations only): the four replicas have the
    same AppHash, the same transaction results and the same export at every
    height.  CORRESPONDENCE: the model's [run_block], started from the
    implementation's own observed pre-state, yields the observed result classes and the
    observed projection (epoch records, inflation schedule and minted supply,
    coinswap pools / reserves / balances, csr registry, parameters). *)
From Coq Require Import ZArith List Bool.
From Canto Require Import Lib.SdkInt Lib.SdkDec Model.Epochs Model.Chain Check.Common Check.CoinswapCheck.
From Canto Require Model.Inflation Model.Coinswap Model.Csr Model.Authority.
Import ListNotations.
Open Scope Z_scope.

Record csr_obs := mkCsrObs {
  co_csrs : list (Z * Csr.csr);     (* every CSR record of the keeper *)
  co_turnstile : option Z;
  co_enable : bool;
  co_share : Z;
  co_module : Z                     (* csr module account, evm denomination *)
}.

Record cobs := mkCObs {
  ob_epochs : list epoch;
  ob_infl : Inflation.state;        (* params, schedule, module account and supply as observed; other ledger fields 0 *)
  ob_swap : CoinswapCheck.obs;
  ob_csr : csr_obs;
  ob_erc : Authority.erc_params
}.

Record block_obs := mkBO {
  bo_blk : blk;
  bo_height : Z;
  bo_hash : list Z;                 (* AppHash index of replicas A B C (E) D *)
  bo_results : list (list Z);       (* per replica: per transaction, index of (code, codespace, data, gas wanted, gas used) *)
  bo_export : list Z;               (* export hash index of every replica that exported at this height *)
  bo_codes : list bool;             (* accepted (identical on all replicas by monitor 11) *)
  bo_post : cobs                    (* observed replica: projection after Commit *)
}.

Record chain_case := mkChainCase {
  cc_day : Z;                       (* rank of "day" *)
  cc_gov : Authority.str;           (* gov module address string *)
  cc_denom : Authority.str;         (* mint denomination string *)
  cc_accts : list Coinswap.acct;    (* compared accounts *)
  cc_denoms : list Coinswap.denom;  (* compared denominations *)
  cc_t0 : Z;                        (* header time of the state [cc_init] was observed in *)
  cc_init : cobs;
  cc_blocks : list block_obs
}.

(** * from observations to model states *)
Definition registry_of (l : list (Z * Csr.csr)) : Csr.registry := Csr.import_csrs l Csr.empty_reg.

Definition csr_state_of (sup : Z) (o : csr_obs) : Csr.state :=
  Csr.mkState (registry_of (co_csrs o))
              (Csr.mkMoney 0 (co_module o) sup 0 (fun _ => 0))
              (Csr.mkCfg (co_turnstile o) (co_enable o) (co_share o)).

Definition auth_of (denom : Authority.str) (o : cobs) : Authority.chain unit :=
  let ip := Inflation.st_params (ob_infl o) in
  let ex := Inflation.p_exp ip in
  let di := Inflation.p_dist ip in
  Authority.mkChain
    (Authority.mkCs 0 [] 0 0 1 [])
    (Authority.mkInf denom (Inflation.ec_a ex) (Inflation.ec_r ex) (Inflation.ec_c ex) (Inflation.ec_target ex)
                     (Inflation.ec_maxvar ex) (Inflation.d_staking di) (Inflation.d_community di) (Inflation.p_enable ip))
    (Authority.mkCsr (co_enable (ob_csr o)) (co_share (ob_csr o)))
    (Authority.mkOnb true 0 [])
    (ob_erc o) tt.

Definition cstate_of (k : chain_case) (t : Z) (o : cobs) : cstate :=
  mkC (ob_epochs o) (ob_infl o) (CoinswapCheck.state_of (ob_swap o))
      (csr_state_of (Inflation.st_supply (ob_infl o)) (ob_csr o))
      (auth_of (cc_denom k) o) 0 t (cc_day k) (cc_gov k).

(** * equality of projections *)
Definition dist_eqb (a b : Inflation.distr) : bool :=
  (Inflation.d_staking a =? Inflation.d_staking b) && (Inflation.d_community a =? Inflation.d_community b).

Definition infl_eqb (a b : Inflation.state) : bool :=
  (Inflation.st_period a =? Inflation.st_period b) && (Inflation.st_skipped a =? Inflation.st_skipped b) &&
  (Inflation.st_provision a =? Inflation.st_provision b) && (Inflation.st_supply a =? Inflation.st_supply b) &&
  (Inflation.st_module a =? Inflation.st_module b).

Definition infl_params_eqb (a b : Inflation.state) : bool :=
  Inflation.exp_eqb (Inflation.p_exp (Inflation.st_params a)) (Inflation.p_exp (Inflation.st_params b)) &&
  dist_eqb (Inflation.p_dist (Inflation.st_params a)) (Inflation.p_dist (Inflation.st_params b)) &&
  Bool.eqb (Inflation.p_enable (Inflation.st_params a)) (Inflation.p_enable (Inflation.st_params b)).

Fixpoint lookup_csr (id : Z) (l : list (Z * Csr.csr)) : option Csr.csr :=
  match l with
  | [] => None
  | (k, r) :: t => if k =? id then Some r else lookup_csr id t
  end.

Definition log_ids (t : tx) : list Z :=
  match t with
  | TxEvm _ _ _ _ _ e =>
      flat_map (fun l => match Csr.l_payload l with
                         | Csr.PRegister _ _ id | Csr.PAssign _ id => [Csr.u64 id]
                         | _ => []
                         end) (Csr.tx_logs e)
  | _ => []
  end.

Definition csr_proj_eqb (ids : list Z) (m : Csr.state) (o : csr_obs) : bool :=
  forallb (fun id => opt_eqb Csr.csr_eqb (Csr.csrs (Csr.reg m) id) (lookup_csr id (co_csrs o))) ids &&
  forallb (fun e : Z * Csr.csr =>
             forallb (fun c => opt_eqb Z.eqb (Csr.byc (Csr.reg m) c) (Some (fst e))) (Csr.c_contracts (snd e)))
          (co_csrs o) &&
  (Csr.module_acct (Csr.mon m) =? co_module o).

Definition params_proj_eqb (m : cstate) (o : cobs) : bool :=
  infl_params_eqb (c_infl m) (ob_infl o) &&
  Bool.eqb (Csr.enable (Csr.cfg (c_csr m))) (co_enable (ob_csr o)) &&
  (Csr.share (Csr.cfg (c_csr m)) =? co_share (ob_csr o)) &&
  opt_eqb Z.eqb (Csr.turnstile (Csr.cfg (c_csr m))) (co_turnstile (ob_csr o)) &&
  Authority.erc_eqb (Authority.c_erc (c_auth m)) (ob_erc o).

(** * monitors on the replicas' observations *)
Definition all_same (l : list Z) : bool :=
  match l with
  | [] => true
  | x :: r => forallb (Z.eqb x) r
  end.
Definition all_same_lists (l : list (list Z)) : bool :=
  match l with
  | [] => true
  | x :: r => forallb (zlist_eqb x) r
  end.

(* codes: 1 result classes differ from the model; 2 epoch records; 3 inflation schedule / minted supply;
          4 coinswap projection; 5 csr projection; 6 parameters; 7 halted-ness;
          10 AppHash differs between replicas; 11 transaction results differ between replicas;
          12 exported genesis differs between replicas;
          13 supply accounting (the equation of Proofs/ChainSupply.v evaluated on the IMPLEMENTATION's
             observations): observed acanto supply after the block - observed supply before =
             mint events - burn events, where the events are the contribution formulas of Model/Chain.v
             ([r_minted], [r_burned]: provision minted per due epoch end; fee - csr fee / whole fee per
             successful CSR hook; burned part of a creation fee per created pool) evaluated on the
             observed pre-state and the observed receipts -- anything else that moves the supply fires it *)
Definition supply_accounting_ok (pre post : cobs) (res : block_result) : bool :=
  Inflation.st_supply (ob_infl post) - Inflation.st_supply (ob_infl pre) =?
  r_minted res - Inflation.zsum (r_burned res).

Fixpoint check_blocks (c i : Z) (k : chain_case) (t : Z) (o : cobs) (bs : list block_obs) : list diff :=
  match bs with
  | [] => []
  | b :: r =>
      let s := cstate_of k t o in
      let '(n', res) := run_block (bo_blk b) (mkNode s s (bo_height b - 1)) in
      let m := committed n' in
      let ids := map fst (co_csrs (ob_csr o)) ++ map fst (co_csrs (ob_csr (bo_post b))) ++
                 flat_map log_ids (b_txs (bo_blk b)) in
      report (all_same (bo_hash b)) c i 10 ++
      report (all_same_lists (bo_results b)) c i 11 ++
      report (all_same (bo_export b)) c i 12 ++
      report (negb (r_halted res)) c i 7 ++
      report (r_halted res || supply_accounting_ok o (bo_post b) res) c i 13 ++
      (if r_halted res then [] else
         report (bools_eqb (r_codes res) (bo_codes b)) c i 1 ++
         report (list_eqb epoch_eqb (c_epochs m) (ob_epochs (bo_post b))) c i 2 ++
         report (infl_eqb (c_infl m) (ob_infl (bo_post b))) c i 3 ++
         report (CoinswapCheck.state_eqb (cc_accts k) (cc_denoms k) (c_swap m)
                                         (CoinswapCheck.state_of (ob_swap (bo_post b)))) c i 4 ++
         report (csr_proj_eqb ids (c_csr m) (ob_csr (bo_post b))) c i 5 ++
         report (params_proj_eqb m (bo_post b)) c i 6) ++
      (* continue from the implementation's own state *)
      check_blocks c (i + 1) k (b_time (bo_blk b)) (bo_post b) r
  end.

Definition check_case (c : Z) (k : chain_case) : list diff :=
  check_blocks c 0 k (cc_t0 k) (cc_init k) (cc_blocks k).
