(** Correspondence checker and monitors for the x/erc20 token-pair registry (C15).

    A case is the observation of the registry before the first operation and, for every
    operation, the operation (with its recorded external inputs) and the observation after
    it.  Every step is checked from the IMPLEMENTATION's own observed pre-state.

    codes (names and kinds in lib/props.d/C15.py)
      model vs implementation ("mismatch")
        2  result class differs             3  pair table differs
        4  denomination index differs       5  address index differs
        6  EnableErc20 differs              7  TokenPairs listing differs from the pair table
        8  answer of a lookup by token differs from the model's lookup on the observed tables
        9  answer of a lookup by id differs from the model's lookup on the observed tables
       19  the observation lacks a lookup the monitors need (harness error)
       22  the address the EVM is about to give to RegisterCoin's contract is already
           registered (the hypothesis [fresh_ok] of the theorems does not hold)
      the property's own predicates on implementation data ("monitor")
       10  the three tables are not a one-to-one correspondence (inv_b)
       11  listing differs from what the lookups reach
       12  lookups by id / address / denomination disagree
       13  a rejected operation changed the registry
       14  registration of an already registered denomination / contract was accepted
       15  an accepted toggle changed more than the flag of a pair carrying the token
       16  an accepted removal left an entry behind or touched another pair
       17  lookup by a hex-shaped denomination answers the pair whose ADDRESS it spells
       18  export/import changed the registry
       20  a toggle by denomination / address did not flip the pair the token designates
       21  a conversion on a designated pair whose contract is gone did not remove it *)
From stdpp Require Import gmap.
From Canto Require Import Model.TokenPairs Check.Common.
Open Scope Z_scope.

Record obs := mkObs {
  o_res : res;                              (* Ok / Rejected (of the operation before) *)
  o_pairs : list (pid * pair);              (* pair table: store key (translated), record *)
  o_denoms : list (tok * pid);              (* denomination index *)
  o_addrs : list (Z * pid);                 (* address index *)
  o_enable : bool;                          (* Params.EnableErc20 *)
  o_listing : list pair;                    (* TokenPairs query *)
  o_lookups : list (tok * option pair);     (* GetTokenPairID+GetTokenPair / TokenPair query *)
  o_byid : list (pid * option pair)         (* GetTokenPair(id) *)
}.

(* abbreviations used by the generated case files *)
Notation P := mkPair (only parsing).
Notation OU := OwnerUnspecified (only parsing).
Notation OM := OwnerModule (only parsing).
Notation OE := OwnerExternal (only parsing).

Record tp_case := mkTpCase {
  tc_init : obs;
  tc_steps : list (op * obs)
}.

(* monomorphic constructors for the generated case files (no implicit arguments to infer:
   elaboration of a case is ten times faster) *)
Definition I (a : Z) (t : tok) : pid := (a, t).
Definition PE (i : pid) (p : pair) : pid * pair := (i, p).
Definition DE (d : tok) (i : pid) : tok * pid := (d, i).
Definition AE (a : Z) (i : pid) : Z * pid := (a, i).
Definition NoP : option pair := None.
Definition SoP (p : pair) : option pair := Some p.
Definition LK (t : tok) (p : option pair) : tok * option pair := (t, p).
Definition BI (i : pid) (p : option pair) : pid * option pair := (i, p).
Definition ST (o : op) (ob : obs) : op * obs := (o, ob).

Definition state_of_obs (o : obs) : state :=
  mkState (list_to_map (o_pairs o)) (list_to_map (o_denoms o)) (list_to_map (o_addrs o)) (o_enable o).

Definition beq {A} `{EqDecision A} (x y : A) : bool := bool_decide (x = y).
Definition in_b (p : pair) (l : list pair) : bool := existsb (beq p) l.
Definition same_set (l1 l2 : list pair) : bool :=
  beq (length l1) (length l2) && forallb (fun p => in_b p l2) l1 && forallb (fun p => in_b p l1) l2.

Definition carries (t : tok) (p : pair) : bool :=
  beq (p_denom p) t || beq (hex_of t) (Some (p_addr p)).

(* the denomination of [p] spells the address of a different listed pair *)
Definition shadowed_b (L : list pair) (p : pair) : bool :=
  match hex_of (p_denom p) with
  | Some a => negb (a =? p_addr p) && existsb (fun q => p_addr q =? a) L
  | None => false
  end.

(* the pair a token designates: by address, or by a denomination that is not shadowed *)
Definition designates_b (L : list pair) (t : tok) (p : pair) : bool :=
  beq (hex_of t) (Some (p_addr p)) || (beq (p_denom p) t && negb (shadowed_b L p)).

(** checks on one observation *)
Definition check_obs (c i : Z) (o : obs) : list diff :=
  let s := state_of_obs o in
  let L := o_listing o in
  (* 7: listing = values of the pair table *)
  report (same_set L (o_pairs o).*2) c i 7 ++
  (* 8, 9: the model's lookups on the observed tables *)
  report (forallb (fun e : tok * option pair => beq (lookup_tok s e.1) e.2) (o_lookups o)) c i 8 ++
  report (forallb (fun e : pid * option pair => beq (get_pair s e.1) e.2) (o_byid o)) c i 9 ++
  (* 10: one-to-one *)
  report (inv_b s) c i 10 ++
  (* 11: every answer is listed; every listed pair is the answer of some lookup *)
  report (forallb (fun e : tok * option pair => match e.2 with Some p => in_b p L | None => true end) (o_lookups o) &&
          forallb (fun e : pid * option pair => match e.2 with Some p => in_b p L | None => true end) (o_byid o) &&
          forallb (fun p => existsb (fun e : tok * option pair => beq e.2 (Some p)) (o_lookups o) ||
                            existsb (fun e : pid * option pair => beq e.2 (Some p)) (o_byid o)) L) c i 11 ++
  (* 19: for every listed pair the observation has its id, its denomination and a spelling of its address *)
  report (forallb (fun p => existsb (fun e : pid * option pair => beq e.1 (id_of p)) (o_byid o) &&
                            existsb (fun e : tok * option pair => beq e.1 (p_denom p)) (o_lookups o) &&
                            existsb (fun e : tok * option pair => beq (hex_of e.1) (Some (p_addr p))) (o_lookups o)) L) c i 19 ++
  (* 12: by id and by address *)
  report (forallb (fun p =>
            forallb (fun e : pid * option pair => negb (beq e.1 (id_of p)) || beq e.2 (Some p)) (o_byid o) &&
            forallb (fun e : tok * option pair => negb (beq (hex_of e.1) (Some (p_addr p))) || beq e.2 (Some p)) (o_lookups o) &&
            (* by denomination, when the denomination does not spell another pair's address *)
            forallb (fun e : tok * option pair => negb (beq e.1 (p_denom p)) || shadowed_b L p || beq e.2 (Some p)) (o_lookups o)) L) c i 12 ++
  (* 17: by denomination, full strength *)
  report (forallb (fun p =>
            forallb (fun e : tok * option pair => negb (beq e.1 (p_denom p)) || negb (shadowed_b L p) || beq e.2 (Some p)) (o_lookups o)) L) c i 17.

Definition res_compat (m o : res) : bool :=
  match m with Unspec => true | _ => beq m o end.

Definition registered_denom (s : state) (d : tok) : bool :=
  is_some (st_denom s !! d) || existsb (fun p => beq (p_denom p) d) (listing s).
Definition registered_addr (s : state) (a : Z) : bool :=
  is_some (st_addr s !! a) || existsb (fun p => p_addr p =? a) (listing s).

(** checks on one step: pre-state [s] (implementation), operation, observation after *)
Definition check_step (c i : Z) (s : state) (o : op) (ob : obs) : list diff :=
  let s' := state_of_obs ob in
  let '(ms, mr) := step o s in
  let L := listing s in
  let r := o_res ob in
  report (res_compat mr r) c i 2 ++
  report (beq (st_pairs ms) (st_pairs s')) c i 3 ++
  report (beq (st_denom ms) (st_denom s')) c i 4 ++
  report (beq (st_addr ms) (st_addr s')) c i 5 ++
  report (beq (st_enable ms) (st_enable s')) c i 6 ++
  (* 13 *)
  report (negb (beq r Rejected) || beq s' s) c i 13 ++
  match o with
  | OpRegCoin _ _ d fresh =>
      report (negb (registered_denom s d && beq r Ok)) c i 14 ++
      report (negb (registered_addr s fresh)) c i 22
  | OpRegErc20 _ _ a =>
      report (negb ((registered_addr s a || registered_denom s (TErc20 a)) && beq r Ok)) c i 14
  | OpToggle auth t =>
      report (negb (beq r Ok) ||
              existsb (fun p => carries t p && beq s' (set_pair (flip p) s)) L) c i 15 ++
      report (match (if auth then find (designates_b L t) L else None) with
              | Some p => beq r Ok && beq s' (set_pair (flip p) s)
              | None => true
              end) c i 20
  | OpConvert coin t dead =>
      report (negb (beq r Ok) || beq s' s ||
              existsb (fun p => carries t p && existsb (Z.eqb (p_addr p)) dead && beq s' (delete_pair p s)) L) c i 16 ++
      report (match find (designates_b L t) L with
              | Some p =>
                  negb (st_enable s && p_enabled p && existsb (Z.eqb (p_addr p)) dead) ||
                  (* ConvertCoin of a coin merely named like the pair's address is refused before the contract is looked at *)
                  (coin && negb (bool_decide (t = p_denom p))) ||
                  (beq r Ok && beq s' (delete_pair p s))
              | None => true
              end) c i 21
  | OpExportImport => report (beq s' s) c i 18
  | _ => []
  end.

Fixpoint check_steps (c i : Z) (s : state) (steps : list (op * obs)) : list diff :=
  match steps with
  | [] => []
  | (o, ob) :: r =>
      check_step c i s o ob ++ check_obs c i ob ++
      check_steps c (i + 1) (state_of_obs ob) r     (* continue from the implementation's state *)
  end.

Definition check_case (c : Z) (k : tp_case) : list diff :=
  check_obs c (-1) (tc_init k) ++ check_steps c 0 (state_of_obs (tc_init k)) (tc_steps k).
