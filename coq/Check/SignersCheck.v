(** Correspondence checker and monitors for C07 (only a message's required
    signers can be debited by it).

    A case is a history of user messages of the five types, executed on the
    real application.  Per step the harness ships the message (payer, recipient,
    amounts, the presentation chosen for every address field), the signer bytes
    the REAL codec derived for it (GetMsgV1Signers; interned into account
    names), the result class of the real message server and the observed
    changes of every tracked ledger (bank balances of all tracked accounts in
    all tracked denominations, each pair's coin ledger, each pair's token
    balances, supplies).

      mismatch  1  derived signers differ from the model's (paying field NOT well-formed)
                2  result class differs from the model's
                3  ledgers / pools after the message differ from the model's
      monitor  10  an account other than a derived signer or the counterparty lost coins or tokens
                   (evaluated on the implementation's observations only)
               11  well-formed message: derived signer set is not exactly [payer named in the message]

    The history continues from the implementation's observed state. *)
From Coq Require Import ZArith List Bool.
From Canto Require Import Lib.SdkInt Lib.SdkDec Model.Coinswap Model.Signers Check.Common.
From Canto Require Model.Convert Check.CoinswapCheck.
Import ListNotations.
Open Scope Z_scope.

(** observed world: association lists, first match wins, default 0 *)
Record world := mkW {
  w_cs : CoinswapCheck.obs;
  w_kind : list (Z * Z);              (* pair -> 0 module-owned | 1 external *)
  w_owner : list (Z * acct);          (* pair -> holder of the minter role *)
  w_paused : list (Z * bool);
  w_pbal : list (Z * acct * Z);       (* (pair, account, balance in the pair's coin denomination) *)
  w_psup : list (Z * Z);
  w_tbal : list (Z * acct * Z);       (* (pair, account, token balance) *)
  w_ttot : list (Z * Z)
}.

Fixpoint zlookup {A} (d : A) (l : list (Z * A)) (k : Z) : A :=
  match l with [] => d | (k', v) :: r => if k =? k' then v else zlookup d r k end.
(* keyed by the account's number on the conversion side *)
Fixpoint plookup (l : list (Z * acct * Z)) (c z : Z) : Z :=
  match l with
  | [] => 0
  | (c', a, v) :: r => if (c =? c') && (z =? enc a) then v else plookup r c z
  end.

Definition state_of (w : world) : state :=
  mkS (CoinswapCheck.state_of (w_cs w))
      (fun c => if zlookup 0 (w_kind w) c =? 0 then Convert.NativeCoin else Convert.NativeERC20)
      (fun c => (Convert.mkBank (plookup (w_pbal w) c) (zlookup 0 (w_psup w) c),
                 Convert.mkH (plookup (w_tbal w) c) (zlookup 0 (w_ttot w) c)
                             (enc (zlookup (User (-1)) (w_owner w) c)) (zlookup false (w_paused w) c))).

Record sg_step := mkSgStep {
  g_now : Z;
  g_msg : msg;
  g_signers : option (list acct);     (* what the real codec derived; None = derivation failed *)
  g_class : Z;                        (* observed: 0 ok, 1 rejected, 2 pair removed (nil response, nil error) *)
  g_next : Z;                         (* observed after the message *)
  g_pools : list (Z * Z);
  g_bal : list (acct * denom * Z);    (* changed values (new) *)
  g_sup : list (denom * Z);
  g_pbal : list (Z * acct * Z);
  g_psup : list (Z * Z);
  g_tbal : list (Z * acct * Z);
  g_ttot : list (Z * Z)
}.

Definition apply_step (w : world) (g : sg_step) : world :=
  let o := w_cs w in
  mkW (CoinswapCheck.mkObs (CoinswapCheck.o_params o) (g_next g) (g_pools g)
                           (g_bal g ++ CoinswapCheck.o_bal o) (g_sup g ++ CoinswapCheck.o_sup o))
      (w_kind w) (w_owner w) (w_paused w)
      (g_pbal g ++ w_pbal w) (g_psup g ++ w_psup w) (g_tbal g ++ w_tbal w) (g_ttot g ++ w_ttot w).

Record sg_case := mkSgCase {
  gc_accts : list acct;       (* every tracked account: users, bystanders, reserves, module accounts *)
  gc_denoms : list denom;     (* every tracked coinswap-world denomination *)
  gc_pairs : list Z;          (* the token pairs *)
  gc_init : world;
  gc_steps : list sg_step
}.

(** * comparisons *)
Fixpoint accts_eqb (a b : list acct) : bool :=
  match a, b with
  | [], [] => true
  | x :: r, y :: s => acct_eqb x y && accts_eqb r s
  | _, _ => false
  end.

Definition class_code (c : class) : Z := match c with COk => 0 | CRejected => 1 | CRemoved => 2 end.

Definition ledgers_eqb (accts : list acct) (denoms : list denom) (pairs : list Z) (s1 s2 : state) : bool :=
  CoinswapCheck.bank_eqb accts denoms (s_cs s1) (s_cs s2) &&
  (st_next (s_cs s1) =? st_next (s_cs s2)) && CoinswapCheck.pools_eqb (st_pools (s_cs s1)) (st_pools (s_cs s2)) &&
  forallb (fun c =>
    forallb (fun a => (pair_bal s1 c a =? pair_bal s2 c a) && (token_bal s1 c a =? token_bal s2 c a)) accts &&
    (Convert.supply (fst (s_pair s1 c)) =? Convert.supply (fst (s_pair s2 c))) &&
    (Convert.total (snd (s_pair s1 c)) =? Convert.total (snd (s_pair s2 c)))) pairs.

(** * the monitor: who lost coins or tokens (implementation's states b = before, a = after) *)
Definition lost (denoms : list denom) (pairs : list Z) (b a : state) (x : acct) : bool :=
  existsb (fun d => coin_bal a x d <? coin_bal b x d) denoms ||
  existsb (fun c => (pair_bal a c x <? pair_bal b c x) || (token_bal a c x <? token_bal b c x)) pairs.

Definition mon_only_signers (accts : list acct) (denoms : list denom) (pairs : list Z)
           (b a : state) (m : msg) (derived : option (list acct)) : bool :=
  forallb (fun x =>
    negb (lost denoms pairs b a x) || is_counterparty b m x ||
    match derived with Some l => existsb (acct_eqb x) l | None => false end) accts.

Definition mon_exact_signer (m : msg) (derived : option (list acct)) : bool :=
  negb (payer_wf m) || opt_eqb accts_eqb derived (Some [payer_of m]).

Fixpoint check_steps (c i : Z) (k : sg_case) (w : world) (steps : list sg_step) : list diff :=
  match steps with
  | [] => []
  | g :: r =>
      let b := state_of w in
      let w' := apply_step w g in
      let a := state_of w' in
      let m := g_msg g in
      let '(ms, mc) := deliver (g_now g) b m in
      report (payer_wf m || opt_eqb accts_eqb (signers m) (g_signers g)) c i 1 ++
      report (class_code mc =? g_class g) c i 2 ++
      report (ledgers_eqb (gc_accts k) (gc_denoms k) (gc_pairs k) ms a) c i 3 ++
      report (mon_only_signers (gc_accts k) (gc_denoms k) (gc_pairs k) b a m (g_signers g)) c i 10 ++
      report (mon_exact_signer m (g_signers g)) c i 11 ++
      check_steps c (i + 1) k w' r       (* continue from the implementation's state *)
  end.

Definition check_case (c : Z) (k : sg_case) : list diff :=
  check_steps c 0 k (gc_init k) (gc_steps k).
