(** Correspondence checkers for x/inflation (C05, C13): replay what the real
    code did and report every step in which the implementation's projection
    differs from the model's result computed from the implementation's own
    pre-state.  The properties determine the projected behaviour uniquely, so
    each code names the clause of the property that the implementation's
    states falsify. *)
From Coq Require Import ZArith List Bool.
From Canto Require Import Lib.SdkInt Lib.SdkDec Model.Epochs Model.Inflation Check.Common.
Import ListNotations.
Open Scope Z_scope.

(** * Library level: CalculateEpochMintProvision *)

Record calc_case := mkCalcCase {
  cc_exp : exp_calc;
  cc_epp : Z;
  cc_bonded : Z;
  cc_obs : list (Z * option Z)   (* period (ascending), observed result raw; None = panic *)
}.

(* codes: 11 = result differs from the fixed-point formula;
          12 = negative result for validated parameters;
          13 = result increases with the period for validated parameters *)
Fixpoint check_calc_obs (c i : Z) (k : calc_case) (valid : bool) (prev : option Z)
         (l : list (Z * option Z)) : list diff :=
  match l with
  | [] => []
  | (x, o) :: r =>
      report (opt_eqb Z.eqb (calc_provision (cc_exp k) (Z.to_N x) (cc_epp k) (cc_bonded k)) o) c i 11 ++
      report (negb valid || match o with Some v => 0 <=? v | None => true end) c i 12 ++
      report (negb valid || match prev, o with Some p, Some v => v <=? p | _, _ => true end) c i 13 ++
      check_calc_obs c (i + 1) k valid (match o with Some _ => o | None => prev end) r
  end.

Definition check_calc (c : Z) (k : calc_case) : list diff :=
  check_calc_obs c 0 k (valid_exp (cc_exp k) && valid_epp (cc_epp k)) None (cc_obs k).

(** * Hook histories through EpochsKeeper.BeginBlocker *)

(* the observed part of the state that a block can change (the harness checks
   on its side that params, epochs_per_period and identifier are untouched) *)
Record dyn := mkDyn {
  dy_period : Z; dy_skipped : Z; dy_provision : Z;
  dy_fee : Z; dy_module : Z; dy_distr : Z; dy_pool : Z; dy_supply : Z
}.
Definition apply_dyn (s : state) (d : dyn) : state :=
  mkState (st_params s) (dy_period d) (dy_skipped d) (st_epp s) (st_ident s) (dy_provision d)
          (dy_fee d) (dy_module d) (dy_distr d) (dy_pool d) (dy_supply d).

Inductive hstep :=
| HSet (e : exp_calc) (d : distr) (en : bool) (after : state)
    (* SetParams; observed state afterwards *)
| HProv (v : Z) (after : state)
    (* SetEpochMintProvision v (a stored provision that is not a whole number of coins
       cannot come out of the calculation; the keeper setter puts one there) *)
| HBlock (t h : Z) (o : oracle) (ratio : Z) (es_after : list epoch) (res : option dyn).
    (* BeginBlocker at time t, height h; oracle inputs and the keeper's BondedRatio read before the call;
       observed epoch records and state afterwards, None = the call panicked
       (nothing written) *)

Record hist_case := mkHistCase {
  hc_day : Z;                   (* rank of "day" among the identifiers, -1 if absent *)
  hc_genesis_oracle : oracle;
  hc_genesis : state;           (* state handed to InitGenesis (provision field ignored) *)
  hc_init : state;              (* observed after InitGenesis *)
  hc_epochs : list epoch;       (* observed epoch records before the first step *)
  hc_steps : list hstep
}.

(* codes: 1 supply, 2 fee collector, 3 inflation module account, 4 distribution
   module account, 5 community pool, 6 skipped epochs, 7 period, 8 stored
   provision, 9 panic / no panic, 10 SetParams, 14 genesis provision, 15 BondedRatio *)
Definition state_diffs (c i : Z) (m o : state) : list diff :=
  report (st_supply m =? st_supply o) c i 1 ++
  report (st_fee m =? st_fee o) c i 2 ++
  report (st_module m =? st_module o) c i 3 ++
  report (st_distr m =? st_distr o) c i 4 ++
  report (st_pool m =? st_pool o) c i 5 ++
  report (st_skipped m =? st_skipped o) c i 6 ++
  report (st_period m =? st_period o) c i 7 ++
  report (st_provision m =? st_provision o) c i 8.

Definition params_eqb (a b : params) : bool :=
  (p_denom a =? p_denom b) && exp_eqb (p_exp a) (p_exp b) &&
  (d_staking (p_dist a) =? d_staking (p_dist b)) && (d_community (p_dist a) =? d_community (p_dist b)) &&
  Bool.eqb (p_enable a) (p_enable b).

Definition state_eqb (m o : state) : bool :=
  match state_diffs 0 0 m o with [] => true | _ => false end &&
  params_eqb (st_params m) (st_params o) && (st_epp m =? st_epp o) && (st_ident m =? st_ident o).

Fixpoint check_steps (c i day : Z) (es : list epoch) (s : state) (steps : list hstep) : list diff :=
  match steps with
  | [] => []
  | HSet e d en after :: r =>
      report (state_eqb (set_params e d en s) after) c i 10 ++
      check_steps c (i + 1) day es after r
  | HProv v after :: r =>
      report (state_eqb (with_schedule s (st_period s) v) after) c i 10 ++
      check_steps c (i + 1) day es after r
  | HBlock t h o ratio es_after res :: r =>
      report (bonded_ratio o s =? ratio) c i 15 ++
      match block day o t h es s, res with
      | Some (_, m), Some d =>
          let obs := apply_dyn s d in
          state_diffs c i m obs ++
          report (params_eqb (st_params m) (st_params obs) && (st_epp m =? st_epp obs) &&
                  (st_ident m =? st_ident obs)) c i 10 ++
          check_steps c (i + 1) day es_after obs r
      | None, None => check_steps c (i + 1) day es_after s r
      | Some _, None => (c, i, 9) :: check_steps c (i + 1) day es_after s r
      | None, Some d => (c, i, 9) :: check_steps c (i + 1) day es_after (apply_dyn s d) r
      end
  end.

Definition check_hist (c : Z) (k : hist_case) : list diff :=
  report (match init_provision (hc_genesis_oracle k) (hc_genesis k) with
          | Some m => state_eqb m (hc_init k)
          | None => false end) c (-1) 14 ++
  check_steps c 0 (hc_day k) (hc_epochs k) (hc_init k) (hc_steps k).
