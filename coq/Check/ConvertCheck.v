(** Correspondence checker and monitors for the conversion paths (C04).

    A case is a short history of conversion messages executed by the real
    message server.  For every step the harness ships: the message, the answers
    the module received from the EVM (the [script]: who was asked, what was
    answered), the result class, and the observed ledgers before and after
    (bank balances of sender / receiver / module and the supply; token balances
    of the same three addresses and totalSupply as the REAL contract reports them).

    Two kinds of findings:
    - mismatch (codes 1-4): the model run on the same answers disagrees with the
      implementation on result class or bank movement; for honest-contract steps
      the honest instantiation is also run and compared on all eight observables;
    - monitor (codes 10-21): the property's own predicates evaluated directly on
      the implementation's observations (no model function involved). *)
From Coq Require Import ZArith List Bool.
From Canto Require Import Model.Convert Check.Common.
Import ListNotations.
Open Scope Z_scope.

Record obs := mkObs {
  o_bs : Z; o_br : Z; o_bm : Z; o_sup : Z;      (* bank: sender, receiver, module, supply *)
  o_ts : Z; o_tr : Z; o_tm : Z; o_tot : Z       (* token: sender, receiver, module, totalSupply; -1 = query failed *)
}.

Record step := mkStep {
  st_dir : Z;                (* 0 MsgConvertCoin, 1 MsgConvertERC20 *)
  st_kind : Z;               (* 0 module-owned pair, 1 external pair *)
  st_gate : bool;            (* validation + MintingEnabled expected to pass *)
  st_has_code : bool;
  st_sender : Z; st_receiver : Z; st_amt : Z;
  st_script : script;        (* what the module saw *)
  st_pre : obs; st_post : obs;
  st_class : Z;              (* 0 ok, 1 rejected, 2 pair removed (nil response, nil error) *)
  st_honest : bool;          (* untouched answers of the shipped ERC20MinterBurnerDecimals *)
  st_owner : Z; st_paused : bool;
  st_undoes_prev : bool      (* converts back what the previous step converted, nothing in between *)
}.

Record convert_case := mkConvertCase { k_module : Z; k_contract : Z; k_steps : list step }.

Definition obs_eqb (a b : obs) : bool :=
  (o_bs a =? o_bs b) && (o_br a =? o_br b) && (o_bm a =? o_bm b) && (o_sup a =? o_sup b) &&
  (o_ts a =? o_ts b) && (o_tr a =? o_tr b) && (o_tm a =? o_tm b) && (o_tot a =? o_tot b).

Definition bank_part_eqb (a b : obs) : bool :=
  (o_bs a =? o_bs b) && (o_br a =? o_br b) && (o_bm a =? o_bm b) && (o_sup a =? o_sup b).

(** ** running the model *)

Definition msg_of (c : contract) (s : step) : msg :=
  mkMsg (if st_dir s =? 0 then CoinToToken else TokenToCoin)
        (if st_kind s =? 0 then NativeCoin else NativeERC20)
        (st_gate s) (st_has_code s) c (st_sender s) (st_receiver s) (st_amt s).

Definition three (S R M : Z) (vs vr vm : Z) : account -> Z :=
  fun a => if a =? S then vs else if a =? R then vr else if a =? M then vm else 0.

Definition bank_of (M : Z) (s : step) (o : obs) : bank :=
  mkBank (three (st_sender s) (st_receiver s) M (o_bs o) (o_br o) (o_bm o)) (o_sup o).

Definition tokens_of (M : Z) (s : step) (o : obs) : hledger :=
  mkH (three (st_sender s) (st_receiver s) M (o_ts o) (o_tr o) (o_tm o)) (o_tot o) (st_owner s) (st_paused s).

Definition class_code (c : class) : Z :=
  match c with COk => 0 | CRejected => 1 | CRemoved => 2 end.

Definition check_scripted (M c : Z) (s : step) (ci i : Z) : list diff :=
  let E := scripted M (st_script s) in
  let '((b', _), cl) := deliver E M (msg_of c s) (bank_of M s (st_pre s), 0) in
  report (class_code cl =? st_class s) ci i 1 ++
  report (negb (st_class s =? 0) || negb (class_code cl =? 0) ||
          ((bal b' (st_sender s) =? o_bs (st_post s)) && (bal b' (st_receiver s) =? o_br (st_post s)) &&
           (bal b' M =? o_bm (st_post s)) && (supply b' =? o_sup (st_post s)))) ci i 2.

Definition check_honest (M c : Z) (s : step) (ci i : Z) : list diff :=
  if negb (st_honest s) then [] else
  let '((b', h'), cl) := deliver (honest M) M (msg_of c s) (bank_of M s (st_pre s), tokens_of M s (st_pre s)) in
  let o' := mkObs (bal b' (st_sender s)) (bal b' (st_receiver s)) (bal b' M) (supply b')
                  (tbal h' (st_sender s)) (tbal h' (st_receiver s)) (tbal h' M) (total h') in
  report (class_code cl =? st_class s) ci i 3 ++
  report (obs_eqb o' (st_post s)) ci i 4.

(** ** monitors: the property on the implementation's observations *)

Definition ind (b : bool) (v : Z) : Z := if b then v else 0.

(* expected change of the bank balance of account [a] and of the supply *)
Definition bank_delta (M : Z) (s : step) (a : Z) : Z :=
  let amt := st_amt s in
  if st_dir s =? 0 then
    if st_kind s =? 0 then ind (a =? st_sender s) (- amt) + ind (a =? M) amt
    else ind (a =? st_sender s) (- amt)
  else
    if st_kind s =? 0 then ind (a =? M) (- amt) + ind (a =? st_receiver s) amt
    else ind (a =? st_receiver s) amt.
Definition supply_delta (s : step) : Z :=
  if st_kind s =? 0 then 0 else if st_dir s =? 0 then - st_amt s else st_amt s.

(* expected change of the token balance of [a] and of totalSupply (honest contract) *)
Definition token_delta_of (M : Z) (s : step) (a : Z) : Z :=
  let amt := st_amt s in
  if st_dir s =? 0 then
    if st_kind s =? 0 then ind (a =? st_receiver s) amt
    else ind (a =? M) (- amt) + ind (a =? st_receiver s) amt
  else
    if st_kind s =? 0 then ind (a =? st_sender s) (- amt)
    else ind (a =? st_sender s) (- amt) + ind (a =? M) amt.
Definition total_delta (s : step) : Z :=
  if st_kind s =? 0 then (if st_dir s =? 0 then st_amt s else - st_amt s) else 0.

Definition bank_exact_obs (M : Z) (s : step) : bool :=
  let p := st_pre s in let q := st_post s in
  (o_bs q =? o_bs p + bank_delta M s (st_sender s)) &&
  (o_br q =? o_br p + bank_delta M s (st_receiver s)) &&
  (o_bm q =? o_bm p + bank_delta M s M) &&
  (o_sup q =? o_sup p + supply_delta s).

Definition token_exact_obs (M : Z) (s : step) : bool :=
  let p := st_pre s in let q := st_post s in
  (o_ts q =? o_ts p + token_delta_of M s (st_sender s)) &&
  (o_tr q =? o_tr p + token_delta_of M s (st_receiver s)) &&
  (o_tm q =? o_tm p + token_delta_of M s M) &&
  (o_tot q =? o_tot p + total_delta s).

(* the delta the module must have seen on the balance it compares *)
Definition seen_delta (s : step) : Z :=
  if (st_dir s =? 1) && (st_kind s =? 0) then - st_amt s else st_amt s.

Definition seen_balances_ok (s : step) : bool :=
  match q0_ans (st_script s), q1_ans (st_script s) with
  | Some t0, Some t1 => t1 =? t0 + seen_delta s
  | _, _ => false
  end.

Definition is_approval (l : log) : bool := match l with LogApproval => true | _ => false end.
Definition is_topicless (l : log) : bool := match l with LogNoTopics => true | _ => false end.

Definition seen_ret (s : step) : option retval := option_map fst (call_ans (st_script s)).
Definition seen_logs (s : step) : list log :=
  match call_ans (st_script s) with Some (_, l) => l | None => [] end.

Definition monitors (M : Z) (s : step) (prev : option step) (ci i : Z) : list diff :=
  let ok := st_class s =? 0 in
  let transfer := st_kind s =? 1 in
  report (negb ok || bank_exact_obs M s) ci i 10 ++
  report (negb (ok && transfer) || negb (match seen_ret s with Some RetFalse => true | _ => false end)) ci i 11 ++
  report (negb (ok && transfer) || negb (match seen_ret s with Some RetBad => true | _ => false end)) ci i 12 ++
  report (negb (ok && transfer) || negb (existsb is_approval (seen_logs s))) ci i 13 ++
  report (negb (ok && transfer) || negb (existsb is_topicless (seen_logs s))) ci i 14 ++
  report (negb ok || seen_balances_ok s) ci i 15 ++
  report (negb ok || (match call_ans (st_script s) with Some _ => true | None => false end)) ci i 16 ++
  report (negb ok || ((0 <? st_amt s) && st_gate s && st_has_code s)) ci i 17 ++
  report (ok || obs_eqb (st_pre s) (st_post s)) ci i 18 ++
  report (negb (ok && st_honest s) || token_exact_obs M s) ci i 19 ++
  match prev with
  | Some p =>
      if st_undoes_prev s && (st_class p =? 0) then
        (* way back: sender and receiver swap roles *)
        let q := st_post s in let o := st_pre p in
        report (negb ok ||
                ((o_bs q =? o_br o) && (o_br q =? o_bs o) && (o_bm q =? o_bm o) && (o_sup q =? o_sup o) &&
                 (o_ts q =? o_tr o) && (o_tr q =? o_ts o) && (o_tm q =? o_tm o) && (o_tot q =? o_tot o))) ci i 20 ++
        report (negb (st_honest s && st_honest p) || ok) ci i 21
      else []
  | None => []
  end.

Fixpoint check_steps (M c : Z) (ci i : Z) (prev : option step) (ss : list step) : list diff :=
  match ss with
  | [] => []
  | s :: r =>
      check_scripted M c s ci i ++ check_honest M c s ci i ++ monitors M s prev ci i ++
      check_steps M c ci (i + 1) (Some s) r
  end.

Definition check_case (ci : Z) (k : convert_case) : list diff :=
  check_steps (k_module k) (k_contract k) ci 0 None (k_steps k).
