(** Correspondence checkers for x/csr (C10, C16).  A case is what the real
    keeper did on a history of hook calls; each step is replayed on the model
    from the implementation's own observed pre-state, and the property's
    predicates are evaluated on the implementation's observed states. *)
From Coq Require Import ZArith List Bool.
From Canto Require Import Lib.SdkInt Lib.SdkDec Model.Csr Check.Common.
Import ListNotations.
Open Scope Z_scope.

(** what the harness observes after genesis import and after every hook call *)
Record obs := mkObs {
  o_csrs : list (Z * csr);     (* all CSRs: (id, record), as IterateAllCSRs lists them *)
  o_byc : list (Z * Z);        (* the raw contract index: (address, id) *)
  o_collector : Z;             (* fee collector balance, EVM denom *)
  o_module : Z;                (* csr module account balance *)
  o_supply : Z;                (* bank supply of the EVM denom *)
  o_tsacct : Z;                (* bank balance of the Turnstile account *)
  o_tsbal : list (Z * Z)       (* Turnstile.balances(n), read by an EVM call, for the probed ids *)
}.

Record step := mkStep {
  sp_pre : option obs;                   (* observed just before, when the harness changed funding, code or
                                            params since the previous step; None = the previous observation *)
  sp_enable : bool; sp_share : Z;        (* csr params in force *)
  sp_code : list Z;                      (* oracle: addresses that hold code *)
  sp_logs : list log;
  sp_gas_used : Z; sp_gas_price : Z;
  sp_to : option Z;
  sp_ok : bool;                          (* the hook returned nil (no error, no panic) *)
  sp_obs : obs                           (* observed afterwards *)
}.

Record csr_case := mkCsrCase {
  k_turnstile : option Z;                (* stored Turnstile address *)
  k_genesis : list (Z * csr);            (* records handed to InitGenesis *)
  k_init : obs;                          (* observed after InitGenesis *)
  k_steps : list step
}.

Fixpoint assoc {A} (k : Z) (l : list (Z * A)) : option A :=
  match l with
  | [] => None
  | (k', v) :: r => if k =? k' then Some v else assoc k r
  end.

Definition reg_of (o : obs) : registry :=
  mkReg (fun n => assoc n (o_csrs o)) (fun a => assoc a (o_byc o)).
Definition mon_of (o : obs) : money :=
  mkMoney (o_collector o) (o_module o) (o_supply o) (o_tsacct o)
          (fun n => match assoc n (o_tsbal o) with Some b => b | None => 0 end).
Definition state_of (ts : option Z) (sp : step) (o : obs) : state :=
  mkState (reg_of o) (mon_of o) (mkCfg ts (sp_enable sp) (sp_share sp)).
Definition tx_of (sp : step) : tx :=
  mkTx (fun a => memZ a (sp_code sp)) (sp_logs sp) (sp_gas_used sp) (sp_gas_price sp) (sp_to sp).

Definition payload_addrs (p : payload) : list Z :=
  match p with PRegister c r _ => [c; r] | PAssign c _ => [c] | _ => [] end.
Definition all_contracts (l : list (Z * csr)) : list Z := flat_map (fun nr => c_contracts (snd nr)) l.
Definition probe_ids (o o' : obs) : list Z :=
  map fst (o_csrs o) ++ map fst (o_csrs o') ++ map fst (o_tsbal o) ++ map fst (o_tsbal o').
Definition probe_addrs (sp : step) (o o' : obs) : list Z :=
  map fst (o_byc o) ++ map fst (o_byc o') ++ all_contracts (o_csrs o) ++ all_contracts (o_csrs o') ++
  sp_code sp ++ flat_map (fun l => payload_addrs (l_payload l)) (sp_logs sp) ++
  match sp_to sp with Some a => [a] | None => [] end.

Definition contracts_eqb (a b : csr) : bool := zl_eqb (c_contracts a) (c_contracts b).
Definition optz_eqb := opt_eqb Z.eqb.

(** * The predicates of C16 on observed states *)

(* the two indexes agree: lookup by contract returns an NFT whose list contains it, and vice versa *)
Definition m_index_agree (o : obs) : bool :=
  forallb (fun an => match assoc (snd an) (o_csrs o) with
                     | Some r => memZ (fst an) (c_contracts r) | None => false end) (o_byc o) &&
  forallb (fun nr => forallb (fun a => optz_eqb (assoc a (o_byc o)) (Some (fst nr))) (c_contracts (snd nr))) (o_csrs o).
Definition m_nodup_lists (o : obs) : bool := forallb (fun nr => nodupb (c_contracts (snd nr))) (o_csrs o).
(* no contract in the lists of two different NFTs; ids listed once *)
Definition m_one_nft (o : obs) : bool :=
  nodupb (map fst (o_csrs o)) && nodupb (map fst (o_byc o)) &&
  forallb (fun nr => forallb (fun mr => (fst nr =? fst mr) ||
             forallb (fun a => negb (memZ a (c_contracts (snd mr)))) (c_contracts (snd nr))) (o_csrs o)) (o_csrs o).

(* is there a Turnstile-emitted register/assign log that places contract a under NFT n ? *)
Definition justified (ts : option Z) (logs : list log) (a n : Z) : bool :=
  match ts with
  | None => false
  | Some t =>
      existsb (fun l => (l_emitter l =? t) &&
                 match l_payload l with
                 | PRegister c _ id => (c =? a) && (u64 id =? n)
                 | PAssign c id => (c =? a) && (u64 id =? n)
                 | _ => false end) logs
  end.
Definition register_justified (ts : option Z) (logs : list log) (n : Z) : bool :=
  match ts with
  | None => false
  | Some t =>
      existsb (fun l => (l_emitter l =? t) &&
                 match l_payload l with PRegister _ _ id => u64 id =? n | _ => false end) logs
  end.

(* pairs (contract, nft) present afterwards that were not there before *)
Definition new_pairs (o o' : obs) : list (Z * Z) :=
  filter (fun an => negb (optz_eqb (assoc (fst an) (o_byc o)) (Some (snd an)))) (o_byc o') ++
  flat_map (fun nr => flat_map (fun a =>
      match assoc (fst nr) (o_csrs o) with
      | Some r => if memZ a (c_contracts r) then [] else [(a, fst nr)]
      | None => [(a, fst nr)] end) (c_contracts (snd nr))) (o_csrs o').

Definition m_only_turnstile (ts : option Z) (sp : step) (o o' : obs) : bool :=
  forallb (fun an => sp_enable sp && justified ts (sp_logs sp) (fst an) (snd an)) (new_pairs o o') &&
  forallb (fun nr => match assoc (fst nr) (o_csrs o) with
                     | Some _ => true
                     | None => sp_enable sp && register_justified ts (sp_logs sp) (fst nr) end) (o_csrs o').
Definition m_only_code (sp : step) (o o' : obs) : bool :=
  forallb (fun an => memZ (fst an) (sp_code sp)) (new_pairs o o').

Fixpoint is_prefix (a b : list Z) : bool :=
  match a, b with
  | [], _ => true
  | x :: r, y :: s => (x =? y) && is_prefix r s
  | _ :: _, [] => false
  end.
(* every existing id is still there with its list extended at the end only; every index entry kept *)
Definition m_no_recreate (o o' : obs) : bool :=
  forallb (fun nr => match assoc (fst nr) (o_csrs o') with
                     | Some r' => is_prefix (c_contracts (snd nr)) (c_contracts r')
                     | None => false end) (o_csrs o) &&
  forallb (fun an => optz_eqb (assoc (fst an) (o_byc o')) (Some (snd an))) (o_byc o).
(* txs / revenue move only for the NFT of the called contract, and only when a fee is processed *)
Definition m_metrics_frame (sp : step) (o o' : obs) : bool :=
  let tgt := if sp_ok sp && sp_enable sp && negb (sp_gas_used sp =? 0)
             then match sp_to sp with Some a => assoc a (o_byc o') | None => None end else None in
  forallb (fun nr =>
    let '(t0, r0) := match assoc (fst nr) (o_csrs o) with
                     | Some r => (c_txs r, c_revenue r) | None => (0, 0) end in
    if optz_eqb tgt (Some (fst nr))
    then ((c_txs (snd nr) =? t0) || (c_txs (snd nr) =? t0 + 1) || (t0 =? 2 ^ 64 - 1)) && (r0 <=? c_revenue (snd nr))
    else (c_txs (snd nr) =? t0) && (c_revenue (snd nr) =? r0)) (o_csrs o').

Definition inv_reports (c i : Z) (o : obs) : list diff :=
  report (m_index_agree o) c i 10 ++ report (m_nodup_lists o) c i 11 ++ report (m_one_nft o) c i 12.

Definition check16_step (c i : Z) (ts : option Z) (o : obs) (sp : step) : list diff :=
  let o' := sp_obs sp in
  let g0 := reg_of o in
  let g' := reg_of o' in
  let expected := if sp_ok sp && sp_enable sp
                  then match ts with Some a => hook_reg (tx_of sp) a g0 | None => g0 end
                  else g0 in
  report (forallb (fun n => opt_eqb contracts_eqb (csrs expected n) (csrs g' n)) (probe_ids o o')) c i 2 ++
  report (forallb (fun a => optz_eqb (byc expected a) (byc g' a)) (probe_addrs sp o o')) c i 3 ++
  inv_reports c i o' ++
  report (m_only_turnstile ts sp o o') c i 13 ++
  report (m_only_code sp o o') c i 14 ++
  report (m_no_recreate o o') c i 15 ++
  report (m_metrics_frame sp o o') c i 16.

Fixpoint check16_steps (c i : Z) (ts : option Z) (o : obs) (l : list step) : list diff :=
  match l with
  | [] => []
  | sp :: r => check16_step c i ts (match sp_pre sp with Some p => p | None => o end) sp ++
               check16_steps c (i + 1) ts (sp_obs sp) r
  end.

(* codes: 1 genesis import differs from the model; 2 contract lists differ from the model;
   3 contract index differs from the model; 10 indexes disagree; 11 duplicate in a list;
   12 contract under two NFTs; 13 registry changed without a Turnstile register/assign event;
   14 address without code added; 15 existing NFT re-created / entry lost;
   16 txs or revenue changed outside fee distribution *)
Definition check_c16 (c : Z) (k : csr_case) : list diff :=
  let g := import_csrs (k_genesis k) empty_reg in
  let o := k_init k in
  report (forallb (fun n => opt_eqb csr_eqb (csrs g n) (assoc n (o_csrs o)))
                  (map fst (k_genesis k) ++ map fst (o_csrs o)) &&
          forallb (fun a => optz_eqb (byc g a) (assoc a (o_byc o)))
                  (all_contracts (k_genesis k) ++ map fst (o_byc o))) c (-1) 1 ++
  inv_reports c (-1) o ++
  check16_steps c 0 (k_turnstile k) o (k_steps k).

(** * C10: the fee split *)

Definition rev_of (o : obs) (n : Z) : Z := match assoc n (o_csrs o) with Some r => c_revenue r | None => 0 end.
Definition txs_of (o : obs) (n : Z) : Z := match assoc n (o_csrs o) with Some r => c_txs r | None => 0 end.
Definition bal_of (o : obs) (n : Z) : Z := match assoc n (o_tsbal o) with Some b => b | None => 0 end.

(* the hypotheses of C10_never_fails, on observed values *)
Definition never_fails_applies (ts : option Z) (sp : step) (o : obs) (fee : Z) : bool :=
  match ts with Some _ => true | None => false end &&
  (0 <=? sp_share sp) && (sp_share sp <=? SdkDec.S) &&
  (0 <=? sp_gas_used sp) && (sp_gas_used sp <? 2 ^ 64) && (0 <=? sp_gas_price sp) &&
  (fee <=? o_collector o) && (fee <? 2 ^ 255) && (0 <=? o_module o) &&
  forallb (fun n => (bal_of o n + fee <? 2 ^ 256) && (rev_of o n + fee <? 2 ^ 256)) (map fst (o_tsbal o)).

(* the statement of the property, evaluated directly on observed states of a successful call *)
Definition spec_reports (c i : Z) (sp : step) (o o' : obs) : list diff :=
  if negb (sp_enable sp) || (sp_gas_used sp =? 0) then
    report ((o_collector o' =? o_collector o) && (o_module o' =? o_module o) && (o_supply o' =? o_supply o) &&
            (o_tsacct o' =? o_tsacct o)) c i 30
  else
    let fee := sp_gas_used sp * sp_gas_price sp in
    let nft := match sp_to sp with Some a => assoc a (o_byc o') | None => None end in
    let credit := match nft with Some _ => fee * sp_share sp / SdkDec.S | None => 0 end in
    report (o_collector o - o_collector o' =? fee) c i 31 ++
    report (o_module o' =? o_module o) c i 32 ++
    report (o_supply o - o_supply o' =? fee - credit) c i 33 ++
    report (o_tsacct o' - o_tsacct o =? credit) c i 34 ++
    report (forallb (fun n => bal_of o' n - bal_of o n =? (if optz_eqb nft (Some n) then credit else 0))
                    (map fst (o_tsbal o'))) c i 35 ++
    report (forallb (fun n => rev_of o' n - rev_of o n =? (if optz_eqb nft (Some n) then credit else 0))
                    (probe_ids o o')) c i 36 ++
    report (forallb (fun n => (txs_of o' n - txs_of o n =? (if optz_eqb nft (Some n) then 1 else 0)) ||
                              (optz_eqb nft (Some n) && (txs_of o n =? 2 ^ 64 - 1)))   (* uint64 counter at its maximum *)
                    (probe_ids o o')) c i 37.

Definition check10_step (c i : Z) (ts : option Z) (o : obs) (sp : step) : list diff :=
  let o' := sp_obs sp in
  let s := state_of ts sp o in
  let fee := sp_gas_used sp * sp_gas_price sp in
  match post_tx (tx_of sp) s, sp_ok sp with
  | Some s', true =>
      report (collector (mon s') =? o_collector o') c i 22 ++
      report (module_acct (mon s') =? o_module o') c i 23 ++
      report (supply (mon s') =? o_supply o') c i 24 ++
      report (forallb (fun n => ts_bal (mon s') n =? bal_of o' n) (map fst (o_tsbal o'))) c i 25 ++
      report (forallb (fun n => match csrs (reg s') n, assoc n (o_csrs o') with
                                | Some a, Some b => c_revenue a =? c_revenue b
                                | _, _ => true end) (probe_ids o o')) c i 26 ++
      report (forallb (fun n => match csrs (reg s') n, assoc n (o_csrs o') with
                                | Some a, Some b => c_txs a =? c_txs b
                                | _, _ => true end) (probe_ids o o')) c i 27 ++
      report (ts_acct (mon s') =? o_tsacct o') c i 28 ++
      spec_reports c i sp o o'
  | Some _, false =>
      (* the model succeeds: a failure of the real hook under the hypotheses of
         never_fails is the property failing; outside them it is a model mismatch *)
      if never_fails_applies ts sp o fee then [(c, i, 20)] else [(c, i, 29)]
  | None, true => [(c, i, 21)] ++ spec_reports c i sp o o'
  | None, false => []
  end.

Fixpoint check10_steps (c i : Z) (ts : option Z) (o : obs) (l : list step) : list diff :=
  match l with
  | [] => []
  | sp :: r => check10_step c i ts (match sp_pre sp with Some p => p | None => o end) sp ++
               check10_steps c (i + 1) ts (sp_obs sp) r
  end.

(* codes: 20 the hook fails under the hypotheses of never_fails; 21 the hook succeeds where the
   model fails; 22..28 a quantity differs from the model (collector, module account, supply,
   balances[nft], revenue, txs, Turnstile account); 29 the hook fails where the model succeeds,
   outside the hypotheses of never_fails; 30..37 the property's own equations fail on the observed
   states (no fee: nothing moves; collector -fee; module account unchanged; supply -(fee-credit);
   Turnstile account +credit; balances[nft] +credit and no other; revenue +credit; txs +1) *)
Definition check_c10 (c : Z) (k : csr_case) : list diff :=
  check10_steps c 0 (k_turnstile k) (k_init k) (k_steps k).
