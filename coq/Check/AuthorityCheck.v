(** Monitors and correspondence checker for the governance-only handlers (C17).

    A case is a history of privileged messages executed through the app's
    message router on a recovered branch.  After every message the harness
    reports the result class and the projection: the five modules' Params as
    read back through each keeper's GetParams, and a list of integers
    describing the registry (number of token pairs, their enabled flags, port
    address).  Every step is checked from the implementation's own previous
    observation. *)
From Coq Require Import ZArith List Bool.
From Canto Require Import Model.Authority Check.Common.
Import ListNotations.
Open Scope Z_scope.

Record aobs := mkAObs {
  ao_cs : cs_params; ao_inf : inf_params; ao_csr : csr_params; ao_onb : onb_params; ao_erc : erc_params;
  ao_reg : list Z
}.

Inductive cop :=
| CCoinswap (auth : str) (nil_field : bool) (p : cs_params)
| CInflation (auth : str) (nil_field : bool) (p : inf_params)
| CCsr (auth : str) (nil_field : bool) (p : csr_params)
| COnboarding (auth : str) (nil_field : bool) (p : onb_params)
| CErc20 (auth : str) (p : erc_params)
| CPriv (k : priv_kind) (auth : str).

Record astep := mkAStep {
  as_op : cop;
  as_ok : bool;        (* observed result class *)
  as_post : aobs       (* observed after the message *)
}.

Record acase := mkACase {
  ac_gov : str;        (* the authority string the keepers were built with *)
  ac_pre : aobs;       (* observed before the first message (genesis) *)
  ac_steps : list astep
}.

Definition aobs_eqb (a b : aobs) : bool :=
  cs_eqb (ao_cs a) (ao_cs b) && inf_eqb (ao_inf a) (ao_inf b) && csr_eqb (ao_csr a) (ao_csr b) &&
  onb_eqb (ao_onb a) (ao_onb b) && erc_eqb (ao_erc a) (ao_erc b) && zlist_eqb (ao_reg a) (ao_reg b).

Definition chain_of (o : aobs) : chain (list Z) :=
  mkChain (ao_cs o) (ao_inf o) (ao_csr o) (ao_onb o) (ao_erc o) (ao_reg o).
Definition obs_of (c : chain (list Z)) : aobs :=
  mkAObs (c_cs c) (c_inf c) (c_csr c) (c_onb c) (c_erc c) (c_reg c).

Definition cop_auth (x : cop) : str :=
  match x with
  | CCoinswap a _ _ | CInflation a _ _ | CCsr a _ _ | COnboarding a _ _ | CErc20 a _ | CPriv _ a => a
  end.

(* the model operation; for the five non-parameter handlers what the keeper function did once
   authorised is taken from the observation (oracle) *)
Definition to_op (x : cop) (ok : bool) (post : aobs) : op (list Z) :=
  match x with
  | CCoinswap a n p => UpdCoinswap a n p
  | CInflation a n p => UpdInflation a n p
  | CCsr a n p => UpdCsr a n p
  | COnboarding a n p => UpdOnboarding a n p
  | CErc20 a p => UpdErc20 a p
  | CPriv k a => Priv k a (fun _ => if ok then Some (ao_reg post) else None)
  end.

Definition stored_as_submitted_b (x : cop) (post : aobs) : bool :=
  match x with
  | CCoinswap _ _ p => cs_eqb (ao_cs post) p
  | CInflation _ _ p => inf_eqb (ao_inf post) p
  | CCsr _ _ p => csr_eqb (ao_csr post) p
  | COnboarding _ _ p => onb_eqb (ao_onb post) p
  | CErc20 _ p => erc_eqb (ao_erc post) p
  | CPriv _ _ => true
  end.

(* codes
   1 non-gov-authority-changed-state : authority <> gov and the message was accepted or state changed   monitor
   2 stored-params-invalid           : a module's stored Params violate its validity predicate          monitor
   3 accepted-update-not-stored-as-submitted                                                            monitor
   4 rejected-message-changed-state                                                                     monitor
   5 result-class-differs-from-model                                                                    mismatch
   6 model-state-differs                                                                                mismatch *)
Definition check_step (cs i : Z) (gov : str) (pre : aobs) (s : astep) : list diff :=
  let x := as_op s in
  let ok := as_ok s in
  let post := as_post s in
  let '(mok, mst) := step gov (to_op x ok post) (chain_of pre) in
  report (str_eqb gov (cop_auth x) || (negb ok && aobs_eqb pre post)) cs i 1 ++
  report (chain_valid (chain_of post)) cs i 2 ++
  report (negb ok || stored_as_submitted_b x post) cs i 3 ++
  report (ok || aobs_eqb pre post) cs i 4 ++
  report (Bool.eqb mok ok) cs i 5 ++
  report (negb (Bool.eqb mok ok) || aobs_eqb (obs_of mst) post) cs i 6.

Fixpoint check_steps (cs i : Z) (gov : str) (pre : aobs) (steps : list astep) : list diff :=
  match steps with
  | [] => []
  | s :: r => check_step cs i gov pre s ++ check_steps cs (i + 1) gov (as_post s) r
  end.

Definition check_case (cs : Z) (k : acase) : list diff :=
  report (chain_valid (chain_of (ac_pre k))) cs (-1) 2 ++
  check_steps cs 0 (ac_gov k) (ac_pre k) (ac_steps k).
