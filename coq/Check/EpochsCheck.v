(** Correspondence checker for x/epochs (C12): replays what the real keeper
    did and reports every block in which the implementation's result differs
    from the model's result computed from the implementation's own pre-state. *)
From Coq Require Import ZArith List Bool.
From Canto Require Import Model.Epochs Check.Common.
Import ListNotations.
Open Scope Z_scope.

Record epochs_case := mkEpochsCase {
  ec_genesis : list epoch;        (* records handed to InitGenesis *)
  ec_t0 : Z; ec_h0 : Z;           (* block time / height of InitGenesis *)
  ec_after_init : list epoch;     (* observed: AllEpochInfos after InitGenesis *)
  ec_steps : list (Z * Z * list epoch * list hook)
                                  (* block time, height, observed records, observed listener calls *)
}.

(* codes: 1 = InitGenesis differs; 2 = records differ after a block; 3 = listener calls differ *)
Fixpoint check_steps (c i : Z) (es : list epoch)
         (steps : list (Z * Z * list epoch * list hook)) : list diff :=
  match steps with
  | [] => []
  | (t, h, oes, ohs) :: r =>
      let '(mes, mhs) := begin_block t h es in
      report (list_eqb epoch_eqb mes oes) c i 2 ++
      report (list_eqb hook_eqb mhs ohs) c i 3 ++
      check_steps c (i + 1) oes r     (* continue from the implementation's state *)
  end.

Definition check_case (c : Z) (k : epochs_case) : list diff :=
  report (list_eqb epoch_eqb (map (import_epoch (ec_t0 k) (ec_h0 k)) (ec_genesis k)) (ec_after_init k)) c (-1) 1 ++
  check_steps c 0 (ec_after_init k) (ec_steps k).
