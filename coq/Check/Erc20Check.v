(** Correspondence checker and monitors for x/erc20 conversions (C03, C14).

    A case is a history executed on the real application.  After every operation the
    harness records the projection (per pair: bank supply, totalSupply(), bank balance and
    balanceOf() of every party of the case, the flags; the two parameters; the result
    class).  For every step the checker
      - runs the model on the IMPLEMENTATION's observed pre-state and compares result class
        and projection ("mismatch" codes 1-5);
      - evaluates the properties' own predicates on the implementation's observations only
        ("monitor" codes 10-14): the backing invariant (C03), and the gates (C14).
    The ghost counters are tracked by the harness: selfburned = sum of successful holder
    burns; stuck = sum of the amounts of the Transfer-to-module logs of a module-owned pair
    whose sender is a blocked address (another module account; such senders exist only in
    receipts handed to the hook at keeper level), processed while both parameters and the
    pair were switched on.

    An [EvmTx] step is one Ethereum transaction whose receipt carries several logs, possibly
    of several pairs: every pair named by a leg is a target of the comparison. *)
From Coq Require Import ZArith NArith List Bool.
From Canto Require Import Model.Erc20 Check.Common.
Import ListNotations.
Open Scope Z_scope.

Record pobs := mkPobs {
  o_kind : kind;
  o_owner : addr;
  o_enabled : bool;
  o_sendok : bool;
  o_supply : Z;
  o_total : Z;
  o_cbal : list Z;        (* aligned with the parties of the case *)
  o_tbal : list Z;
  o_selfburned : Z;
  o_stuck : Z
}.

Record obs := mkObs {
  ob_mod : bool;
  ob_hook : bool;
  ob_pairs : list pobs    (* pair id = position *)
}.

(* observation after a step, relative to the previous one: [None] = the harness observed
   exactly the same values for that pair as before the step (keeps the case files small) *)
Record dobs := mkDobs {
  d_mod : bool;
  d_hook : bool;
  d_pairs : list (option pobs)
}.

Record erc20_case := mkErc20Case {
  k_parties : list addr;
  k_blocked : list addr;  (* every address for which the bank answers BlockedAddr = true *)
  k_init : obs;
  k_steps : list (op * bool * dobs)   (* operation, result class ok?, observation after *)
}.

Fixpoint merge (prev : list pobs) (news : list (option pobs)) : list pobs :=
  match prev, news with
  | _ :: pr, Some n :: nr => n :: merge pr nr
  | p :: pr, None :: nr => p :: merge pr nr
  | _, _ => []
  end.

Definition obs_after (pre : obs) (d : dobs) : obs :=
  mkObs (d_mod d) (d_hook d) (merge (ob_pairs pre) (d_pairs d)).

Fixpoint fun_of (ps : list addr) (vs : list Z) : addr -> Z :=
  match ps, vs with
  | a :: pr, v :: vr => fun x => if N.eqb x a then v else fun_of pr vr x
  | _, _ => fun _ => 0
  end.

Definition pair_of (parties : list addr) (o : pobs) : pair :=
  mkPair (o_kind o) (o_owner o) (fun_of parties (o_cbal o)) (o_supply o)
         (fun_of parties (o_tbal o)) (o_total o) (o_enabled o) (o_sendok o) (o_selfburned o) (o_stuck o).

Definition dummy_pair : pair :=
  mkPair ModuleOwned ZERO (fun _ => 0) 0 (fun _ => 0) 0 false false 0 0.

Definition blocked_of (bl : list addr) : addr -> bool := fun a => existsb (N.eqb a) bl.

Definition state_of (parties bl : list addr) (o : obs) : state :=
  mkState (ob_mod o) (ob_hook o) (blocked_of bl)
          (fun p => nth (Z.to_nat p) (map (pair_of parties) (ob_pairs o)) dummy_pair).

(* projections of a model pair on the parties *)
Definition bank_eqb (parties : list addr) (ps : pair) (o : pobs) : bool :=
  (p_supply ps =? o_supply o) && zlist_eqb (map (p_cbal ps) parties) (o_cbal o).
Definition token_eqb (parties : list addr) (ps : pair) (o : pobs) : bool :=
  (p_total ps =? o_total o) && zlist_eqb (map (p_tbal ps) parties) (o_tbal o).
Definition flags_eqb (ps : pair) (o : pobs) : bool :=
  Bool.eqb (p_enabled ps) (o_enabled o) && Bool.eqb (p_sendok ps) (o_sendok o).

Definition leg_pair (l : leg) : option Z :=
  match l with LTransfer p _ _ _ => Some p | LApprove p _ _ _ => Some p | LForeign _ _ _ => None end.

(* the pairs an operation may change *)
Definition target (o : op) (q : Z) : bool :=
  match o with
  | OnPair p _ => q =? p
  | SetParams _ _ => false
  | EvmTx legs => existsb (fun l => match leg_pair l with Some p => q =? p | None => false end) legs
  end.

(* compare the model's post-state with the observation, pair by pair *)
Fixpoint cmp_pairs (parties : list addr) (c i : Z) (tgt : Z -> bool) (s : state) (q : Z) (os : list pobs) : list diff :=
  match os with
  | [] => []
  | o :: r =>
      let ps := pairs s q in
      (if tgt q then
         report (bank_eqb parties ps o) c i 2 ++
         report (token_eqb parties ps o) c i 3 ++
         report (flags_eqb ps o) c i 4
       else
         report (bank_eqb parties ps o && token_eqb parties ps o && flags_eqb ps o) c i 5)
      ++ cmp_pairs parties c i tgt s (q + 1) r
  end.

(** monitors: predicates of the properties, on implementation observations only *)
Definition backing_obs (parties : list addr) (os : list pobs) : bool :=
  forallb (fun o => backing_b (pair_of parties o)) os.

Definition nth_pobs (o : obs) (p : Z) : option pobs := nth_error (ob_pairs o) (Z.to_nat p).

Definition msg_parties (o : op) : option (Z * addr * addr) :=
  match o with
  | OnPair p (ConvertCoin sd rc _) => Some (p, sd, rc)
  | OnPair p (ConvertERC20 sd rc _) => Some (p, sd, rc)
  | _ => None
  end.

(* the gate of the property text is closed for this message in this (observed) state *)
Definition msg_gate_closed (bl : list addr) (pre : obs) (po : pobs) (sd rc : addr) : bool :=
  negb (ob_mod pre) || negb (o_enabled po) || blocked_of bl rc ||
  (negb (N.eqb sd rc) && negb (o_sendok po)).

Definition hook_gate_closed (pre : obs) (po : pobs) : bool :=
  negb (ob_mod pre) || negb (ob_hook pre) || negb (o_enabled po).

Definition pobs_bank_same (a b : pobs) : bool :=
  (o_supply a =? o_supply b) && zlist_eqb (o_cbal a) (o_cbal b).
Definition pobs_token_same (a b : pobs) : bool :=
  (o_total a =? o_total b) && zlist_eqb (o_tbal a) (o_tbal b).

(* a transaction with several logs (the token contract need not be the callee): for every pair
   whose hook route is closed in the observed state, the bank side is as before; and when the
   calls themselves are feasible on the observed ledgers (the ordinary ERC-20 semantics of
   [legs_exec]), the transaction is carried out and the pair's token ledger is exactly the
   result of its ordinary transfers *)
Fixpoint tx_gate_monitors (parties : list addr) (c i : Z) (pre : obs) (legs : list leg)
         (plain : option (Z -> pair)) (ok : bool) (q : Z) (os os' : list pobs) : list diff :=
  match os, os' with
  | a :: r, b :: r' =>
      (if hook_gate_closed pre a then
         report (pobs_bank_same a b) c i 12 ++
         (if target (EvmTx legs) q then
            match plain with
            | Some f => report (ok && token_eqb parties (f q) b) c i 14
            | None => []
            end
          else [])
       else []) ++
      tx_gate_monitors parties c i pre legs plain ok (q + 1) r r'
  | _, _ => []
  end.

Definition gate_monitors (parties bl : list addr) (c i : Z) (pre : obs) (o : op) (ok : bool) (post : obs) : list diff :=
  match msg_parties o with
  | Some (p, sd, rc) =>
      match nth_pobs pre p, nth_pobs post p with
      | Some a, Some b =>
          if msg_gate_closed bl pre a sd rc then
            report (negb ok) c i 11 ++
            report (pobs_bank_same a b) c i 12 ++
            report (pobs_token_same a b) c i 13
          else []
      | _, _ => []
      end
  | None =>
      match o with
      | OnPair p (EvmTransfer from to amt) =>
          match nth_pobs pre p, nth_pobs post p with
          | Some a, Some b =>
              if hook_gate_closed pre a then
                report (pobs_bank_same a b) c i 12 ++
                (* ordinary transfers keep working *)
                (if (0 <=? amt) && (amt <=? fun_of parties (o_tbal a) from)
                    && negb (N.eqb from ZERO) && negb (N.eqb to ZERO)
                 then match tmove (pair_of parties a) from to amt with
                      | Some ps1 => report (ok && token_eqb parties ps1 b) c i 14
                      | None => report false c i 14
                      end
                 else [])
              else []
          | _, _ => []
          end
      | EvmTx legs =>
          tx_gate_monitors parties c i pre legs
            (legs_exec (pairs (state_of parties bl pre)) legs) ok 0 (ob_pairs pre) (ob_pairs post)
      | _ => []
      end
  end.

(* codes: 1 result class differs; 2 bank side of the target pair differs; 3 token side
   differs; 4 flags differ; 5 another pair changed; 6 parameters differ; 7 malformed case;
   10 backing invariant false on the implementation; 11 conversion succeeded while the gate
   is closed; 12 bank side changed while the route is disabled; 13 token ledger changed by a
   rejected conversion; 14 ordinary transfer not carried out while the hook route is disabled *)
Fixpoint check_steps (c03 c14 : bool) (parties bl : list addr) (c i : Z) (pre : obs)
         (steps : list (op * bool * dobs)) : list diff :=
  match steps with
  | [] => []
  | (o, ok, d) :: r =>
      let post := obs_after pre d in
      let s := state_of parties bl pre in
      let res := exec s o in
      let s' := match res with Some x => x | None => s end in
      report (Nat.eqb (length (ob_pairs post)) (length (ob_pairs pre))) c i 7 ++
      report (Bool.eqb (match res with Some _ => true | None => false end) ok) c i 1 ++
      report (Bool.eqb (en_mod s') (ob_mod post) && Bool.eqb (en_hook s') (ob_hook post)) c i 6 ++
      cmp_pairs parties c i (target o) s' 0 (ob_pairs post) ++
      (if c03 then report (backing_obs parties (ob_pairs post)) c i 10 else []) ++
      (if c14 then gate_monitors parties bl c i pre o ok post else []) ++
      check_steps c03 c14 parties bl c (i + 1) post r   (* continue from the implementation's state *)
  end.

Definition check_case_gen (c03 c14 : bool) (c : Z) (k : erc20_case) : list diff :=
  (if c03 then report (backing_obs (k_parties k) (ob_pairs (k_init k))) c (-1) 10 else []) ++
  check_steps c03 c14 (k_parties k) (k_blocked k) c 0 (k_init k) (k_steps k).

Definition check_case_c03 := check_case_gen true false.
Definition check_case_c14 := check_case_gen false true.
