(** Shared pieces of the correspondence checkers that run inside Coq
    (vm_compute) over cases emitted by the Go harness. *)
From Coq Require Import ZArith List Bool.
Import ListNotations.
Open Scope Z_scope.

(* a reported difference: (case index, step index, code) *)
Definition diff := (Z * Z * Z)%type.

Definition report (ok : bool) (c s code : Z) : list diff :=
  if ok then [] else [(c, s, code)].

Fixpoint zlist_eqb (a b : list Z) : bool :=
  match a, b with
  | [], [] => true
  | x :: r, y :: s => (x =? y) && zlist_eqb r s
  | _, _ => false
  end.

Definition opt_eqb {A} (eqb : A -> A -> bool) (a b : option A) : bool :=
  match a, b with
  | Some x, Some y => eqb x y
  | None, None => true
  | _, _ => false
  end.
