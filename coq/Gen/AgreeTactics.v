(** Tactics shared by the agreement lemmas (Gen/Agree*.v).

    [agree] closes  gen_f args = model expression : first by [reflexivity] (the generated text is the model's
    text up to the names of bound variables); failing that by normalisation -- commute the commutative sdkmath
    operations, split on every fallible step and every comparison, and close the leaves by congruence / lia --
    so that a harmless rewrite of the Go source (two independent statements swapped, a.Mul(b) written b.Mul(a),
    a.GT(b) written b.LT(a)) does not raise an alarm while a semantic one still does. *)
From Coq Require Import ZArith List Bool Lia.
From Canto Require Import Lib.SdkInt Lib.SdkDec.
Open Scope Z_scope.

Lemma int_mul_comm : forall a b, SdkInt.mul a b = SdkInt.mul b a.
Proof. intros. unfold SdkInt.mul. rewrite Z.mul_comm. reflexivity. Qed.
Lemma int_add_comm : forall a b, SdkInt.add a b = SdkInt.add b a.
Proof. intros. unfold SdkInt.add. rewrite Z.add_comm. reflexivity. Qed.
Lemma dec_mul_comm : forall a b, SdkDec.mul a b = SdkDec.mul b a.
Proof. intros. unfold SdkDec.mul, SdkDec.rmul. rewrite Z.mul_comm. reflexivity. Qed.
Lemma dec_add_comm : forall a b, SdkDec.add a b = SdkDec.add b a.
Proof. intros. unfold SdkDec.add. rewrite Z.add_comm. reflexivity. Qed.

(** boolean facts to propositions *)
Ltac b2p :=
  repeat match goal with
  | H : negb _ = true |- _ => apply negb_true_iff in H
  | H : negb _ = false |- _ => apply negb_false_iff in H
  | H : (_ && _) = true |- _ => apply andb_true_iff in H; destruct H
  | H : (_ <? _) = true |- _ => apply Z.ltb_lt in H
  | H : (_ <? _) = false |- _ => apply Z.ltb_ge in H
  | H : (_ <=? _) = true |- _ => apply Z.leb_le in H
  | H : (_ <=? _) = false |- _ => apply Z.leb_gt in H
  | H : (_ =? _) = true |- _ => apply Z.eqb_eq in H
  | H : (_ =? _) = false |- _ => apply Z.eqb_neq in H
  end.

Ltac comm_step :=
  match goal with
  | |- context [SdkInt.mul ?a ?b] =>
      match goal with |- context [SdkInt.mul b a] => tryif constr_eq a b then fail else rewrite (int_mul_comm b a) end
  | |- context [SdkInt.add ?a ?b] =>
      match goal with |- context [SdkInt.add b a] => tryif constr_eq a b then fail else rewrite (int_add_comm b a) end
  | |- context [SdkDec.mul ?a ?b] =>
      match goal with |- context [SdkDec.mul b a] => tryif constr_eq a b then fail else rewrite (dec_mul_comm b a) end
  | |- context [SdkDec.add ?a ?b] =>
      match goal with |- context [SdkDec.add b a] => tryif constr_eq a b then fail else rewrite (dec_add_comm b a) end
  end.

Ltac simp := cbv zeta; cbn [negb andb orb obind].

(* split on a fallible step whose operands are known *)
Ltac bind_step :=
  match goal with
  | |- context [obind ?e _] =>
      lazymatch e with
      | context [obind _ _] => fail
      | context [if _ then _ else _] => fail
      | _ => destruct e eqn:?; simp
      end
  end.

(* split on a comparison / a boolean input *)
Ltac atom_step :=
  match goal with
  | |- context [?x <? ?y] => destruct (x <? y) eqn:?; simp
  | |- context [?x <=? ?y] => destruct (x <=? y) eqn:?; simp
  | |- context [?x =? ?y] => destruct (x =? y) eqn:?; simp
  | |- context [if ?c then _ else _] => is_var c; destruct c; simp
  | |- context [negb ?c] => is_var c; destruct c; simp
  end.

(* a fallible step in tail position *)
Ltac tail_step :=
  match goal with
  | |- ?l = ?r =>
      lazymatch l with
      | Some _ => fail | None => fail | obind _ _ => fail | (if _ then _ else _) => fail | (let _ := _ in _) => fail
      | _ => destruct l eqn:?; simp
      end
  | |- ?l = ?r =>
      lazymatch r with
      | Some _ => fail | None => fail | obind _ _ => fail | (if _ then _ else _) => fail | (let _ := _ in _) => fail
      | _ => destruct r eqn:?; simp
      end
  end.

(* the same step may have been split twice (once per side): identify the results *)
Ltac inj :=
  repeat match goal with
  | H : Some _ = Some _ |- _ => injection H as H; try subst
  | H : Some _ = None |- _ => discriminate H
  | H : None = Some _ |- _ => discriminate H
  | H1 : ?e = Some _, H2 : ?e = Some _ |- _ => rewrite H1 in H2
  | H1 : ?e = Some _, H2 : ?e = None |- _ => rewrite H1 in H2
  end.

Ltac leaf := inj; first [ reflexivity | congruence | exfalso; b2p; lia | f_equal; b2p; lia ].

(* bounded: a semantic edit makes the search fail or run out of time; either way the lemma does not compile *)
Ltac normalise := timeout 40 (simp; repeat first [ comm_step | bind_step | tail_step | atom_step ]; leaf).

Ltac agree := intros; first [ reflexivity | normalise ].
