(** Agreement between the definitions regenerated from /repo/x/inflation (Gen/KInflation.v, written by
    tools/gokernel on every run) and the hand-written model (Model/Inflation.v). *)
From Coq Require Import ZArith List Bool String Lia.
From Canto Require Import Lib.SdkInt Lib.SdkDec Model.Epochs Model.Inflation Gen.KInflation Gen.AgreeTactics.
Import ListNotations.
Open Scope Z_scope.

(* types/inflation_calculation.go CalculateEpochMintProvision = Model.Inflation.calc_provision; the generated
   arguments come sorted by provenance: params.ExponentialCalculation.{A, BondingTarget, C, MaxVariance, R},
   period, epochsPerPeriod, bondedRatio *)
Lemma agree_CalculateEpochMintProvision : forall a target c maxvar r period epp bonded,
  gen_CalculateEpochMintProvision a target c maxvar r period epp bonded
  = calc_provision (mkExp a r c target maxvar) (Z.to_N period) epp bonded.
Proof.
  intros; first [ reflexivity
                | unfold gen_CalculateEpochMintProvision, calc_provision, power_reduction;
                  cbn [ec_a ec_r ec_c ec_target ec_maxvar]; normalise ].
Qed.

Lemma agree_CalculateEpochMintProvision_N : forall e (period : N) epp bonded,
  gen_CalculateEpochMintProvision (ec_a e) (ec_target e) (ec_c e) (ec_maxvar e) (ec_r e) (Z.of_N period) epp bonded
  = calc_provision e period epp bonded.
Proof. intros [a r c target maxvar] period epp bonded. rewrite agree_CalculateEpochMintProvision, N2Z.id. reflexivity. Qed.

Lemma agree_CalculateEpochMintProvision_inputs : gen_CalculateEpochMintProvision_inputs =
  [ "arg0.ExponentialCalculation.A";
    "arg0.ExponentialCalculation.BondingTarget";
    "arg0.ExponentialCalculation.C";
    "arg0.ExponentialCalculation.MaxVariance";
    "arg0.ExponentialCalculation.R";
    "arg1"; "arg2"; "arg3" ]%string.
Proof. reflexivity. Qed.

(* keeper/inflation.go GetProportions = Model.Inflation.get_proportion *)
Lemma agree_GetProportions : forall amount share,
  gen_GetProportions amount share = get_proportion amount share.
Proof.
  intros. unfold gen_GetProportions, get_proportion.
  destruct (SdkDec.mul _ _) as [p|]; [|reflexivity]. cbn [obind].
  destruct (SdkDec.truncate_int p) as [r|]; [|reflexivity]. cbn [obind].
  rewrite (Z.leb_antisym r 0). first [ reflexivity | normalise ].
Qed.

Lemma agree_GetProportions_inputs : gen_GetProportions_inputs = ["arg1.Amount"; "arg2"]%string.
Proof. reflexivity. Qed.

(* keeper/hooks.go AfterEpochEnd: the period-boundary condition = Model.Inflation.period_passed *)
Lemma agree_period_passed : forall n s,
  gen_period_passed n (st_epp s) (st_period s) (st_skipped s) = period_passed n s.
Proof. intros; first [ reflexivity | unfold gen_period_passed, period_passed; normalise ]. Qed.

Lemma agree_period_passed_inputs : gen_period_passed_inputs =
  [ "arg2";                                (* epochNumber *)
    "recv.GetEpochsPerPeriod(arg0)";
    "recv.GetPeriod(arg0)";
    "recv.GetSkippedEpochs(arg0)" ]%string.
Proof. reflexivity. Qed.
