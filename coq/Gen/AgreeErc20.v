(** Agreement between the definitions regenerated from /repo/x/erc20/keeper/msg_server.go (Gen/KErc20.v, written by
    tools/gokernel on every run) and the balance checks of the four conversion paths of the hand-written model
    (Model/Convert.v, property C04).

    Each [gen_convert*] is a function of what the path READS - the converted amount, the token balance answered by
    the contract before and after the EVM call, the bank balance of the receiver before and after the bank
    operations (the two ConvertERC20 paths), the unpacked boolean of `transfer` (the two external-pair paths) - and
    returns [None] when one of the path's checks refuses, otherwise the amounts the path hands out, in call order.
    big.Int arithmetic is plain Z (it cannot overflow); the coin-side expectation `balanceCoin.Add(coins[0])` is an
    sdkmath.Int addition (SdkInt.add: panics above 2^256).

    For each path: [agree_f] (the generated definition is the restated fragment [m_f]), [uses_f] (the model
    function accepts exactly when that fragment does, on the executions in which the external calls answered - the
    hypotheses are the external guards listed in [gen_f_assumes] and the error returns of the bank / EVM calls),
    [agree_f_inputs], [agree_f_assumes]. *)
From Coq Require Import ZArith List Bool String Lia.
From Canto Require Import Lib.SdkInt Lib.SdkDec Model.Convert Gen.KErc20 Gen.AgreeTactics.
Import ListNotations.
Open Scope Z_scope.

Definition accepted {E : evm_model} (r : result E) : bool := match r with Ok _ => true | Err _ _ => false end.
Definition is_some {A} (o : option A) : bool := match o with Some _ => true | None => false end.
(* types.ERC20BoolResponse.Value after a successful UnpackIntoInterface *)
Definition unpacked (r : retval) : bool := match r with RetTrue => true | _ => false end.

(** * The checks of Model/Convert.v, restated on the quantities read

    [t0]/[t1]: call_balance_of before / after; [c0]/[c1]: bal _ receiver before / after; [v]: the unpacked boolean.
    The lists are what the Go code hands out (bank amounts, the commit flag and the amount of CallEVM, the amount
    packed into the transfer data), in call order. *)

(* convert_coin_native_coin: `if t1 =? t0 + amt then Ok .. else Err ETokenMismatch ..`;
   SendCoinsFromAccountToModule(amt), CallEVM(commit, "mint", amt) *)
Definition m_coin_native_coin (amt t0 t1 : Z) : option (list Z) :=
  if t1 =? t0 + amt then Some [amt; 1; amt] else None.

(* convert_erc20_native_coin: `if negb (bal b1 receiver =? c0 + amt) then Err ECoinMismatch ..` and then
   `if t1 =? t0 - amt then Ok .. else Err ETokenMismatch ..`;
   CallEVM(commit, "burnCoins", amt), SendCoinsFromModuleToAccount(amt) *)
Definition m_erc20_native_coin (amt t0 t1 c0 c1 : Z) : option (list Z) :=
  exp_coin <- SdkInt.add c0 amt ;;
  if negb (c1 =? exp_coin) then None
  else if t1 =? t0 - amt then Some [1; amt; amt] else None.

(* convert_erc20_native_erc20: RetFalse -> Err EFalse; `if negb (t1 =? t0 + amt) then Err ETokenMismatch ..`;
   `if negb (bal b2 receiver =? c0 + amt) then Err ECoinMismatch ..`;
   Pack("transfer", amt), CallEVMWithData(commit), MintCoins(amt), SendCoinsFromModuleToAccount(amt) *)
Definition m_erc20_native_erc20 (amt : Z) (v : bool) (t0 t1 c0 c1 : Z) : option (list Z) :=
  if negb v then None
  else if negb (t1 =? t0 + amt) then None
  else exp_coin <- SdkInt.add c0 amt ;;
       if negb (c1 =? exp_coin) then None else Some [amt; 1; amt; amt].

(* convert_coin_native_erc20: RetFalse -> Err EFalse; `if negb (t1 =? t0 + amt) then Err ETokenMismatch ..`;
   SendCoinsFromAccountToModule(amt), CallEVM(commit, "transfer", amt), BurnCoins(amt) *)
Definition m_coin_native_erc20 (amt : Z) (v : bool) (t0 t1 : Z) : option (list Z) :=
  if negb v then None
  else if negb (t1 =? t0 + amt) then None else Some [amt; 1; amt; amt].

(** * The generated definitions are these fragments *)

Ltac agree_erc20 :=
  intros; cbv zeta;
  first [ reflexivity
        | solve [ repeat match goal with
                  | |- context [if ?c then _ else _] =>
                      lazymatch c with
                      | context [if _ then _ else _] => fail
                      | _ => destruct c eqn:?; cbn [negb obind]
                      end
                  | |- context [obind ?e _] => destruct e eqn:?; cbn [negb obind]
                  end; leaf ]
        | normalise ].

Lemma agree_convertCoinNativeCoin : forall amt t0 t1,
  gen_convertCoinNativeCoin amt t0 t1 = m_coin_native_coin amt t0 t1.
Proof. unfold gen_convertCoinNativeCoin, m_coin_native_coin. agree_erc20. Qed.

Lemma agree_convertERC20NativeCoin : forall amt t0 t1 c0 c1,
  gen_convertERC20NativeCoin amt t0 t1 c0 c1 = m_erc20_native_coin amt t0 t1 c0 c1.
Proof. unfold gen_convertERC20NativeCoin, m_erc20_native_coin. agree_erc20. Qed.

Lemma agree_convertERC20NativeToken : forall amt v t0 t1 c0 c1,
  gen_convertERC20NativeToken amt v t0 t1 c0 c1 = m_erc20_native_erc20 amt v t0 t1 c0 c1.
Proof. unfold gen_convertERC20NativeToken, m_erc20_native_erc20. agree_erc20. Qed.

Lemma agree_convertCoinNativeERC20 : forall amt v t0 t1,
  gen_convertCoinNativeERC20 amt v t0 t1 = m_coin_native_erc20 amt v t0 t1.
Proof. unfold gen_convertCoinNativeERC20, m_coin_native_erc20. agree_erc20. Qed.

(** * The model functions are built from these fragments

    On the executions in which every external call answered (balance queries, bank operations, the EVM call, the
    unpacking of the return data, the scan of the logs), the model path accepts exactly when the generated
    definition, fed with the answers the model path reads, returns [Some].  [SdkInt.overflows .. = false]: the
    coin-side expectation stays below 2^256 (Convert.v does not model sdkmath.Int overflow). *)

Lemma uses_coin_native_coin : forall (E : evm_model) M c sender receiver amt b e t0 b1 e1 r l t1,
  call_balance_of E e c receiver = Some t0 ->
  bank_send sender M amt b = Some b1 ->
  call_mint E e c receiver amt = Some (e1, r, l) ->
  call_balance_of E e1 c receiver = Some t1 ->
  accepted (convert_coin_native_coin E M c sender receiver amt (b, e))
  = is_some (gen_convertCoinNativeCoin amt t0 t1).
Proof.
  intros E M c sender receiver amt b e t0 b1 e1 r l t1 Hq0 Hsend Hcall Hq1.
  rewrite agree_convertCoinNativeCoin.
  unfold convert_coin_native_coin, m_coin_native_coin.
  rewrite Hq0, Hsend, Hcall, Hq1.
  destruct (t1 =? t0 + amt); reflexivity.
Qed.

Lemma uses_erc20_native_coin : forall (E : evm_model) M c sender receiver amt b e t0 e1 r l b1 t1,
  call_balance_of E e c sender = Some t0 ->
  call_burn E e c sender amt = Some (e1, r, l) ->
  bank_send M receiver amt b = Some b1 ->
  call_balance_of E e1 c sender = Some t1 ->
  SdkInt.overflows (bal b receiver + amt) = false ->
  accepted (convert_erc20_native_coin E M c sender receiver amt (b, e))
  = is_some (gen_convertERC20NativeCoin amt t0 t1 (bal b receiver) (bal b1 receiver)).
Proof.
  intros E M c sender receiver amt b e t0 e1 r l b1 t1 Hq0 Hcall Hsend Hq1 Hno.
  rewrite agree_convertERC20NativeCoin.
  unfold convert_erc20_native_coin, m_erc20_native_coin, SdkInt.add, SdkInt.chk.
  rewrite Hq0, Hcall, Hsend, Hno. cbn [obind].
  destruct (bal b1 receiver =? bal b receiver + amt); cbn [negb]; [|reflexivity].
  rewrite Hq1. destruct (t1 =? t0 - amt); reflexivity.
Qed.

Lemma uses_erc20_native_erc20 : forall (E : evm_model) M c sender receiver amt b e t0 e1 r l t1 b1 b2,
  call_balance_of E e c M = Some t0 ->
  call_transfer E e c sender M amt = Some (e1, r, l) ->
  r <> RetBad ->
  call_balance_of E e1 c M = Some t1 ->
  bank_mint M amt b = Some b1 ->
  bank_send M receiver amt b1 = Some b2 ->
  monitor l = ScanClean ->
  SdkInt.overflows (bal b receiver + amt) = false ->
  accepted (convert_erc20_native_erc20 E M c sender receiver amt (b, e))
  = is_some (gen_convertERC20NativeToken amt (unpacked r) t0 t1 (bal b receiver) (bal b2 receiver)).
Proof.
  intros E M c sender receiver amt b e t0 e1 r l t1 b1 b2 Hq0 Hcall Hr Hq1 Hmint Hsend Hmon Hno.
  rewrite agree_convertERC20NativeToken.
  unfold convert_erc20_native_erc20, m_erc20_native_erc20, SdkInt.add, SdkInt.chk.
  rewrite Hq0, Hcall, Hno.
  destruct r; [|reflexivity|congruence]. cbn [unpacked negb obind].
  rewrite Hq1. destruct (t1 =? t0 + amt); cbn [negb]; [|reflexivity].
  rewrite Hmint, Hsend.
  destruct (bal b2 receiver =? bal b receiver + amt); cbn [negb]; [|reflexivity].
  rewrite Hmon. reflexivity.
Qed.

Lemma uses_coin_native_erc20 : forall (E : evm_model) M c sender receiver amt b e t0 b1 e1 r l t1 b2,
  call_balance_of E e c receiver = Some t0 ->
  bank_send sender M amt b = Some b1 ->
  call_transfer E e c M receiver amt = Some (e1, r, l) ->
  r <> RetBad ->
  call_balance_of E e1 c receiver = Some t1 ->
  bank_burn M amt b1 = Some b2 ->
  monitor l = ScanClean ->
  accepted (convert_coin_native_erc20 E M c sender receiver amt (b, e))
  = is_some (gen_convertCoinNativeERC20 amt (unpacked r) t0 t1).
Proof.
  intros E M c sender receiver amt b e t0 b1 e1 r l t1 b2 Hq0 Hsend Hcall Hr Hq1 Hburn Hmon.
  rewrite agree_convertCoinNativeERC20.
  unfold convert_coin_native_erc20, m_coin_native_erc20.
  rewrite Hq0, Hsend, Hcall.
  destruct r; [|reflexivity|congruence]. cbn [unpacked negb].
  rewrite Hq1. destruct (t1 =? t0 + amt); cbn [negb]; [|reflexivity].
  rewrite Hburn, Hmon. reflexivity.
Qed.

(** * What each argument stands for (provenance), and the external guards

    arg1 = pair, arg2 = msg, arg3 = receiver, arg4 = sender; `@n` = after n effect calls on the path (bank
    operations, Pack, CallEVM / CallEVMWithData): the same query text before and after the EVM call is two inputs. *)

Lemma agree_convertCoinNativeCoin_inputs : gen_convertCoinNativeCoin_inputs =
  [ "arg2.Coin.Amount";
    "recv.BalanceOf(arg0, contracts.ERC20MinterBurnerDecimalsContract.ABI, arg1.GetERC20Contract(), arg3)@0";
    "recv.BalanceOf(arg0, contracts.ERC20MinterBurnerDecimalsContract.ABI, arg1.GetERC20Contract(), arg3)@2" ]%string.
Proof. reflexivity. Qed.

Lemma agree_convertCoinNativeCoin_assumes : gen_convertCoinNativeCoin_assumes =
  [ "not (recv.BalanceOf(arg0, contracts.ERC20MinterBurnerDecimalsContract.ABI, arg1.GetERC20Contract(), arg3)@0 == nil)";
    "not (recv.BalanceOf(arg0, contracts.ERC20MinterBurnerDecimalsContract.ABI, arg1.GetERC20Contract(), arg3)@2 == nil)" ]%string.
Proof. reflexivity. Qed.

Lemma agree_convertERC20NativeCoin_inputs : gen_convertERC20NativeCoin_inputs =
  [ "arg2.Amount";
    "recv.BalanceOf(arg0, contracts.ERC20MinterBurnerDecimalsContract.ABI, arg1.GetERC20Contract(), arg4)@0";
    "recv.BalanceOf(arg0, contracts.ERC20MinterBurnerDecimalsContract.ABI, arg1.GetERC20Contract(), arg4)@2";
    "recv.bankKeeper.GetBalance(arg0, arg3, arg1.Denom)@0.Amount";
    "recv.bankKeeper.GetBalance(arg0, arg3, arg1.Denom)@2.Amount" ]%string.
Proof. reflexivity. Qed.

Lemma agree_convertERC20NativeCoin_assumes : gen_convertERC20NativeCoin_assumes =
  [ "not (recv.BalanceOf(arg0, contracts.ERC20MinterBurnerDecimalsContract.ABI, arg1.GetERC20Contract(), arg4)@0 == nil)";
    "not (recv.BalanceOf(arg0, contracts.ERC20MinterBurnerDecimalsContract.ABI, arg1.GetERC20Contract(), arg4)@2 == nil)" ]%string.
Proof. reflexivity. Qed.

(* the escrow balance of the MODULE is the one compared, not the sender's (ConvertProofs.checked) *)
Lemma agree_convertERC20NativeToken_inputs : gen_convertERC20NativeToken_inputs =
  [ "arg2.Amount";
    "contracts.ERC20MinterBurnerDecimalsContract.ABI.UnpackIntoInterface(&zero(types.ERC20BoolResponse), ""transfer"", recv.CallEVMWithData(arg0, arg4, &arg1.GetERC20Contract(), contracts.ERC20MinterBurnerDecimalsContract.ABI.Pack(""transfer"", types.ModuleAddress, arg2.Amount.BigInt())#0, true)#0.Ret)&0.Value";
    "recv.BalanceOf(arg0, contracts.ERC20MinterBurnerDecimalsContract.ABI, arg1.GetERC20Contract(), types.ModuleAddress)@0";
    "recv.BalanceOf(arg0, contracts.ERC20MinterBurnerDecimalsContract.ABI, arg1.GetERC20Contract(), types.ModuleAddress)@2";
    "recv.bankKeeper.GetBalance(arg0, arg3, arg1.Denom)@0.Amount";
    "recv.bankKeeper.GetBalance(arg0, arg3, arg1.Denom)@4.Amount" ]%string.
Proof. reflexivity. Qed.

Lemma agree_convertERC20NativeToken_assumes : gen_convertERC20NativeToken_assumes =
  [ "not (recv.BalanceOf(arg0, contracts.ERC20MinterBurnerDecimalsContract.ABI, arg1.GetERC20Contract(), types.ModuleAddress)@0 == nil)";
    "not (recv.BalanceOf(arg0, contracts.ERC20MinterBurnerDecimalsContract.ABI, arg1.GetERC20Contract(), types.ModuleAddress)@2 == nil)" ]%string.
Proof. reflexivity. Qed.

Lemma agree_convertCoinNativeERC20_inputs : gen_convertCoinNativeERC20_inputs =
  [ "arg2.Coin.Amount";
    "contracts.ERC20MinterBurnerDecimalsContract.ABI.UnpackIntoInterface(&zero(types.ERC20BoolResponse), ""transfer"", recv.CallEVM(arg0, contracts.ERC20MinterBurnerDecimalsContract.ABI, types.ModuleAddress, arg1.GetERC20Contract(), true, ""transfer"", arg3, arg2.Coin.Amount.BigInt())#0.Ret)&0.Value";
    "recv.BalanceOf(arg0, contracts.ERC20MinterBurnerDecimalsContract.ABI, arg1.GetERC20Contract(), arg3)@0";
    "recv.BalanceOf(arg0, contracts.ERC20MinterBurnerDecimalsContract.ABI, arg1.GetERC20Contract(), arg3)@2" ]%string.
Proof. reflexivity. Qed.

Lemma agree_convertCoinNativeERC20_assumes : gen_convertCoinNativeERC20_assumes =
  [ "not (recv.BalanceOf(arg0, contracts.ERC20MinterBurnerDecimalsContract.ABI, arg1.GetERC20Contract(), arg3)@0 == nil)";
    "not (recv.BalanceOf(arg0, contracts.ERC20MinterBurnerDecimalsContract.ABI, arg1.GetERC20Contract(), arg3)@2 == nil)" ]%string.
Proof. reflexivity. Qed.

(** non-vacuity: the hypotheses of a [uses_] lemma are satisfiable and both verdicts occur *)
Example ex_accepts : gen_convertCoinNativeCoin 30 7 37 = Some [30; 1; 30]. Proof. reflexivity. Qed.
Example ex_refuses_over : gen_convertCoinNativeCoin 30 7 38 = None. Proof. reflexivity. Qed.
Example ex_refuses_under : gen_convertERC20NativeCoin 30 50 21 5 35 = None. Proof. reflexivity. Qed.
Example ex_refuses_false : gen_convertCoinNativeERC20 30 false 7 37 = None. Proof. reflexivity. Qed.
Example ex_refuses_coin : gen_convertERC20NativeToken 20 true 4 24 5 26 = None. Proof. reflexivity. Qed.
Example ex_accepts_token : gen_convertERC20NativeToken 20 true 4 24 5 25 = Some [20; 1; 20; 20]. Proof. reflexivity. Qed.

Print Assumptions uses_coin_native_coin.
Print Assumptions uses_erc20_native_coin.
Print Assumptions uses_erc20_native_erc20.
Print Assumptions uses_coin_native_erc20.
