(** Agreement between the definitions regenerated from /repo/x/coinswap (Gen/KCoinswap.v, written by
    tools/gokernel on every run) and the hand-written model (Model/Coinswap.v).

    For every generated definition [gen_f]:
      - [agree_f]        : gen_f = the corresponding expression of the model (the model's own function where
                           one exists; otherwise the fragment of the model function, restated here as [m_f]);
      - [agree_f_inputs] : which quantity of the Go code each argument of gen_f stands for (receiver / argument
                           positions and call chains, see tools/gokernel/README.md) -- pins "which balance,
                           which message field, which leg";
      - [uses_f]         : the model function really is built from that fragment (so the fragment restated
                           here cannot drift away from the model).
    A semantic edit of the Go source changes the generated text and one of these stops compiling. *)
From Coq Require Import ZArith List Bool String Lia.
From Canto Require Import Lib.SdkInt Lib.SdkDec Model.Coinswap Gen.KCoinswap Gen.AgreeTactics.
Import ListNotations.
Open Scope Z_scope.

(** * Price kernels *)

Lemma agree_GetInputPrice : forall inputAmt inputReserve outputReserve fee,
  gen_GetInputPrice inputAmt inputReserve outputReserve fee = input_price inputAmt inputReserve outputReserve fee.
Proof. intros; first [ reflexivity | unfold gen_GetInputPrice, input_price; normalise ]. Qed.

Lemma agree_GetOutputPrice : forall outputAmt inputReserve outputReserve fee,
  gen_GetOutputPrice outputAmt inputReserve outputReserve fee = output_price outputAmt inputReserve outputReserve fee.
Proof. intros; first [ reflexivity | unfold gen_GetOutputPrice, output_price; normalise ]. Qed.

Lemma agree_GetInputPrice_inputs : gen_GetInputPrice_inputs = ["arg0"; "arg1"; "arg2"; "arg3"]%string.
Proof. reflexivity. Qed.
Lemma agree_GetOutputPrice_inputs : gen_GetOutputPrice_inputs = ["arg0"; "arg1"; "arg2"; "arg3"]%string.
Proof. reflexivity. Qed.

(** * calculateWithExactInput / calculateWithExactOutput: reserve guards, then the price *)

Definition m_calc_in (ain inres outres fee : Z) : option Z :=
  guard (0 <? inres) ;;
  guard (0 <? outres) ;;
  input_price ain inres outres fee.

Definition m_calc_out (aout inres outres fee : Z) : option Z :=
  guard (0 <? inres) ;;
  guard (0 <? outres) ;;
  guard (aout <? outres) ;;
  output_price aout inres outres fee.

Lemma agree_calculateWithExactInput : forall ain fee inres outres,
  gen_calculateWithExactInput ain fee inres outres = m_calc_in ain inres outres fee.
Proof.
  intros; first [ reflexivity
                | unfold gen_calculateWithExactInput, m_calc_in; rewrite ?agree_GetInputPrice; normalise ].
Qed.

Lemma agree_calculateWithExactInput_inputs : gen_calculateWithExactInput_inputs =
  [ "arg1.Amount";                  (* exactSoldCoin.Amount *)
    "recv.GetParams(arg0).Fee";
    (* input reserve: pool balance of the sold denomination; output reserve: of the bought denomination *)
    "recv.GetPoolBalances(arg0, types.GetReservePoolAddr(recv.GetLptDenomFromDenoms(arg0, arg1.Denom, arg2)#0).String())#0.AmountOf(arg1.Denom)";
    "recv.GetPoolBalances(arg0, types.GetReservePoolAddr(recv.GetLptDenomFromDenoms(arg0, arg1.Denom, arg2)#0).String())#0.AmountOf(arg2)" ]%string.
Proof. reflexivity. Qed.

(* the generated arguments come sorted by provenance: amount, fee, reserve of arg1.Denom (the BOUGHT coin:
   output reserve), reserve of arg2 (the sold denomination: input reserve) *)
Lemma agree_calculateWithExactOutput : forall aout fee outres inres,
  gen_calculateWithExactOutput aout fee outres inres = m_calc_out aout inres outres fee.
Proof.
  intros. unfold gen_calculateWithExactOutput, m_calc_out.
  first [ rewrite <- Z.ltb_antisym; reflexivity | rewrite ?agree_GetOutputPrice; normalise ].
Qed.

Lemma agree_calculateWithExactOutput_inputs : gen_calculateWithExactOutput_inputs =
  [ "arg1.Amount";                  (* exactBoughtCoin.Amount *)
    "recv.GetParams(arg0).Fee";
    "recv.GetPoolBalances(arg0, types.GetReservePoolAddr(recv.GetLptDenomFromDenoms(arg0, arg1.Denom, arg2)#0).String())#0.AmountOf(arg1.Denom)";
    "recv.GetPoolBalances(arg0, types.GetReservePoolAddr(recv.GetLptDenomFromDenoms(arg0, arg1.Denom, arg2)#0).String())#0.AmountOf(arg2)" ]%string.
Proof. reflexivity. Qed.

Lemma agree_calculate_assumes :
  gen_calculateWithExactInput_assumes = [] /\ gen_calculateWithExactOutput_assumes = [].
Proof. split; reflexivity. Qed.

(** * TradeExactInputForOutput / TradeInputForExactOutput: limit of the user, which leg is capped, the cap,
      and what is handed to swapCoins ([sold; bought]) and returned *)

Definition m_sell_checks (wl : list (denom * Z)) (din : denom) (ain : Z) (dout : denom) (min_out bought : Z)
  : option (list Z) :=
  guard (negb (bought <? min_out)) ;;
  guard (negb (bought <? 0)) ;;
  let '(qd, qa) := quote din ain dout bought in
  mx <- wl_lookup qd wl ;;
  guard (negb (mx <? qa)) ;;
  Some [ain; bought; bought].

Definition m_buy_checks (wl : list (denom * Z)) (din : denom) (max_in : Z) (dout : denom) (aout sold : Z)
  : option (list Z) :=
  guard (negb (max_in <? sold)) ;;
  guard (negb (sold <? 0)) ;;
  let '(qd, qa) := quote dout aout din sold in
  mx <- wl_lookup qd wl ;;
  guard (negb (mx <? qa)) ;;
  Some [sold; aout; sold].

(* The generated definition reads the cap of the quoted denomination as an input (GetMaximumSwapAmount
   succeeded); [mx_in] is the cap of the input coin's denomination, [mx_out] of the output coin's. *)
Lemma agree_TradeExactInputForOutput : forall wl din ain dout min_out bought mx_in mx_out,
  (denom_eqb dout Std = false -> wl_lookup dout wl = Some mx_out) ->
  (denom_eqb dout Std = true -> wl_lookup din wl = Some mx_in) ->
  gen_TradeExactInputForOutput ain min_out (denom_eqb dout Std) mx_in mx_out bought
  = m_sell_checks wl din ain dout min_out bought.
Proof.
  intros wl din ain dout min_out bought mx_in mx_out Hout Hin.
  unfold gen_TradeExactInputForOutput, m_sell_checks, quote.
  destruct (denom_eqb dout Std) eqn:E; cbn [negb].
  - rewrite (Hin eq_refl). first [ reflexivity | normalise ].
  - rewrite (Hout eq_refl). first [ reflexivity | normalise ].
Qed.

Lemma agree_TradeExactInputForOutput_inputs : gen_TradeExactInputForOutput_inputs =
  [ "arg1.Coin.Amount";                                             (* input.Coin.Amount: exact amount sold *)
    "arg2.Coin.Amount";                                             (* output.Coin.Amount: minimum bought *)
    "arg2.Coin.Denom == recv.GetStandardDenom(arg0)#0";             (* bought coin is the standard coin *)
    "recv.GetMaximumSwapAmount(arg0, arg1.Coin.Denom)#0.Amount";    (* cap of the input denomination *)
    "recv.GetMaximumSwapAmount(arg0, arg2.Coin.Denom)#0.Amount";    (* cap of the output denomination *)
    "recv.calculateWithExactInput(arg0, arg1.Coin, arg2.Coin.Denom)#0" ]%string.
Proof. reflexivity. Qed.

Lemma agree_TradeInputForExactOutput : forall wl din max_in dout aout sold mx_in mx_out,
  (denom_eqb din Std = false -> wl_lookup din wl = Some mx_in) ->
  (denom_eqb din Std = true -> wl_lookup dout wl = Some mx_out) ->
  gen_TradeInputForExactOutput max_in (denom_eqb din Std) aout mx_in mx_out sold
  = m_buy_checks wl din max_in dout aout sold.
Proof.
  intros wl din max_in dout aout sold mx_in mx_out Hin Hout.
  unfold gen_TradeInputForExactOutput, m_buy_checks, quote.
  destruct (denom_eqb din Std) eqn:E; cbn [negb].
  - rewrite (Hout eq_refl). first [ reflexivity | normalise ].
  - rewrite (Hin eq_refl). first [ reflexivity | normalise ].
Qed.

Lemma agree_TradeInputForExactOutput_inputs : gen_TradeInputForExactOutput_inputs =
  [ "arg1.Coin.Amount";                                             (* input.Coin.Amount: maximum sold *)
    "arg1.Coin.Denom == recv.GetStandardDenom(arg0)#0";             (* sold coin is the standard coin *)
    "arg2.Coin.Amount";                                             (* output.Coin.Amount: exact amount bought *)
    "recv.GetMaximumSwapAmount(arg0, arg1.Coin.Denom)#0.Amount";
    "recv.GetMaximumSwapAmount(arg0, arg2.Coin.Denom)#0.Amount";
    "recv.calculateWithExactOutput(arg0, arg2.Coin, arg1.Coin.Denom)#0" ]%string.
Proof. reflexivity. Qed.

Lemma agree_Trade_assumes :
  gen_TradeExactInputForOutput_assumes = [] /\ gen_TradeInputForExactOutput_assumes = [].
Proof. split; reflexivity. Qed.

(* the model functions are built from these fragments *)
Lemma uses_trade_sell : forall s sender recipient din ain dout min_out,
  trade_sell s sender recipient din ain dout min_out =
  (seq <- pool_of s din dout ;;
   let esc := Escrow seq in
   bought <- m_calc_in ain (st_bal s esc din) (st_bal s esc dout) (p_fee (st_params s)) ;;
   _ <- m_sell_checks (p_wl (st_params s)) din ain dout min_out bought ;;
   s1 <- send s sender esc din ain ;;
   s2 <- send s1 esc recipient dout bought ;;
   Some (s2, bought)).
Proof.
  intros. unfold trade_sell, m_calc_in, m_sell_checks.
  destruct (pool_of s din dout) as [seq|]; [|reflexivity]. cbn [obind].
  destruct (0 <? st_bal s (Escrow seq) din); [|reflexivity].
  destruct (0 <? st_bal s (Escrow seq) dout); [|reflexivity].
  destruct (input_price ain _ _ _) as [bought|]; [|reflexivity]. cbn [obind].
  destruct (negb (bought <? min_out)); [|reflexivity].
  destruct (negb (bought <? 0)); [|reflexivity].
  destruct (quote din ain dout bought) as [qd qa].
  destruct (wl_lookup qd _) as [mx|]; [|reflexivity]. cbn [obind].
  destruct (negb (mx <? qa)); reflexivity.
Qed.

Lemma uses_trade_buy : forall s sender recipient din max_in dout aout,
  trade_buy s sender recipient din max_in dout aout =
  (seq <- pool_of s dout din ;;
   let esc := Escrow seq in
   sold <- m_calc_out aout (st_bal s esc din) (st_bal s esc dout) (p_fee (st_params s)) ;;
   _ <- m_buy_checks (p_wl (st_params s)) din max_in dout aout sold ;;
   s1 <- send s sender esc din sold ;;
   s2 <- send s1 esc recipient dout aout ;;
   Some (s2, sold)).
Proof.
  intros. unfold trade_buy, m_calc_out, m_buy_checks.
  destruct (pool_of s dout din) as [seq|]; [|reflexivity]. cbn [obind].
  destruct (0 <? st_bal s (Escrow seq) din); [|reflexivity].
  destruct (0 <? st_bal s (Escrow seq) dout); [|reflexivity].
  destruct (aout <? st_bal s (Escrow seq) dout); [|reflexivity].
  destruct (output_price aout _ _ _) as [sold|]; [|reflexivity]. cbn [obind].
  destruct (negb (max_in <? sold)); [|reflexivity].
  destruct (negb (sold <? 0)); [|reflexivity].
  destruct (quote dout aout din sold) as [qd qa].
  destruct (wl_lookup qd _) as [mx|]; [|reflexivity]. cbn [obind].
  destruct (negb (mx <? qa)); reflexivity.
Qed.

(** * AddLiquidity: [standard coin deposited; token deposited; liquidity minted] as handed to addLiquidity *)

Definition m_add_amounts (p : params) (wl_amt : Z) (pool_exists : bool) (stdres tokres liq : Z)
                         (max_tok exact_std min_liq : Z) : option (list Z) :=
  guard (0 <? wl_amt) ;;
  if negb pool_exists then
    guard (initial_add_checks p exact_std min_liq) ;;
    Some [exact_std; max_tok; exact_std]
  else if liq =? 0 then
    guard (initial_add_checks p exact_std min_liq) ;;
    Some [exact_std; max_tok; exact_std]
  else
    guard (stdres <? p_cap p) ;;
    room <- SdkInt.sub (p_cap p) stdres ;;
    let std_in := Z.min exact_std room in
    t1 <- SdkInt.mul liq std_in ;;
    mint_amt <- SdkInt.quo t1 stdres ;;
    guard (negb (mint_amt <? min_liq)) ;;
    t2 <- SdkInt.mul tokres std_in ;;
    t3 <- SdkInt.quo t2 stdres ;;
    deposit <- SdkInt.add t3 1 ;;
    guard (negb (deposit <? 0)) ;; guard (negb (std_in <? 0)) ;;
    guard (negb (max_tok <? deposit)) ;;
    Some [std_in; deposit; mint_amt].

(* sdk.NewCoin(standardDenom, msg.ExactStandardAmt) and sdk.NewCoin(msg.MaxToken.Denom, msg.MaxToken.Amount)
   panic on negative amounts; message validation (exec: 0 < exact_std, 0 < max_tok) excludes them *)
Lemma agree_AddLiquidity : forall p wl_amt pool_exists stdres tokres liq max_tok exact_std min_liq,
  0 <= exact_std -> 0 <= max_tok ->
  gen_AddLiquidity exact_std max_tok min_liq (p_cap p) wl_amt pool_exists tokres stdres liq
  = m_add_amounts p wl_amt pool_exists stdres tokres liq max_tok exact_std min_liq.
Proof.
  intros p wl_amt pool_exists stdres tokres liq max_tok exact_std min_liq Hs Ht.
  unfold gen_AddLiquidity, m_add_amounts, initial_add_checks.
  assert (E1 : (exact_std <? 0) = false) by (apply Z.ltb_ge; lia).
  assert (E2 : (max_tok <? 0) = false) by (apply Z.ltb_ge; lia).
  rewrite ?E1, ?E2. cbn [negb].
  first [ solve [ rewrite <- Z.ltb_antisym;
                  destruct (0 <? wl_amt); [|reflexivity];
                  destruct (negb pool_exists);
                  [ destruct (negb (p_cap p <? exact_std)); [|reflexivity];
                    destruct (negb (exact_std <? min_liq)); reflexivity
                  | destruct (liq =? 0);
                    [ destruct (negb (p_cap p <? exact_std)); [|reflexivity];
                      destruct (negb (exact_std <? min_liq)); reflexivity
                    | reflexivity ] ] ]
        | solve [ destruct pool_exists; normalise ] ].
Qed.

Lemma agree_AddLiquidity_inputs : gen_AddLiquidity_inputs =
  [ "arg1.ExactStandardAmt";
    "arg1.MaxToken.Amount";
    "arg1.MinLiquidity";
    "recv.GetParams(arg0).MaxStandardCoinPerPool";
    "recv.GetParams(arg0).MaxSwapAmount.AmountOf(arg1.MaxToken.Denom)";
    "recv.GetPool(arg0, types.GetPoolId(arg1.MaxToken.Denom))#1";
    (* token reserve, then standard reserve, of the pool's escrow address *)
    "recv.GetPoolBalances(arg0, recv.GetPool(arg0, types.GetPoolId(arg1.MaxToken.Denom))#0.EscrowAddress)#0.AmountOf(arg1.MaxToken.Denom)";
    "recv.GetPoolBalances(arg0, recv.GetPool(arg0, types.GetPoolId(arg1.MaxToken.Denom))#0.EscrowAddress)#0.AmountOf(recv.GetStandardDenom(arg0)#0)";
    (* supply of the pool's liquidity token *)
    "recv.bk.GetSupply(arg0, recv.GetPool(arg0, types.GetPoolId(arg1.MaxToken.Denom))#0.LptDenom).Amount" ]%string.
Proof. reflexivity. Qed.

Lemma agree_AddLiquidity_assumes : gen_AddLiquidity_assumes =
  [ "not (recv.GetStandardDenom(arg0)#0 == arg1.MaxToken.Denom)" ]%string.
Proof. reflexivity. Qed.

(* addLiquidity: deposits both coins, mints and pays out the liquidity token; sdk.NewCoin(lptDenom, mint) *)
Lemma agree_addLiquidity : forall std_amt tok_amt mint_amt,
  gen_addLiquidity std_amt tok_amt mint_amt =
  (guard (negb (mint_amt <? 0)) ;; Some [std_amt; tok_amt; mint_amt; mint_amt; mint_amt]).
Proof. intros; first [ reflexivity | unfold gen_addLiquidity; normalise ]. Qed.
Lemma agree_addLiquidity_inputs : gen_addLiquidity_inputs = ["arg3.Amount"; "arg4.Amount"; "arg6"]%string.
Proof. reflexivity. Qed.

(* the model's add_liquidity, on an existing non-empty pool, computes exactly these amounts *)
Lemma uses_add_liquidity : forall s sender tokn max_tok exact_std min_liq seq,
  lookup_pool tokn (st_pools s) = Some seq ->
  st_sup s (Lpt seq) =? 0 = false ->
  add_liquidity s sender tokn max_tok exact_std min_liq =
  (let p := st_params s in
   match m_add_amounts p (wl_amount (Tok tokn) (p_wl p)) true (st_bal s (Escrow seq) Std) (st_bal s (Escrow seq) (Tok tokn))
                       (st_sup s (Lpt seq)) max_tok exact_std min_liq with
   | Some [std_in; deposit; mint_amt] =>
       guard (negb (mint_amt <? 0)) ;;
       add_transfer s sender seq (Tok tokn) std_in deposit mint_amt
   | _ => None
   end).
Proof.
  intros s sender tokn max_tok exact_std min_liq seq Hp Hl.
  unfold add_liquidity, m_add_amounts. rewrite Hp, Hl. cbn [negb].
  destruct (0 <? wl_amount _ _); [|reflexivity].
  destruct (st_bal s (Escrow seq) Std <? p_cap (st_params s)); [|reflexivity].
  destruct (SdkInt.sub _ _) as [room|]; [|reflexivity]. cbn [obind].
  destruct (SdkInt.mul (st_sup s (Lpt seq)) _) as [t1|]; [|reflexivity]. cbn [obind].
  destruct (SdkInt.quo t1 _) as [mint|]; [|reflexivity]. cbn [obind].
  destruct (negb (mint <? min_liq)); [|reflexivity].
  destruct (SdkInt.mul (st_bal s (Escrow seq) (Tok tokn)) _) as [t2|]; [|reflexivity]. cbn [obind].
  destruct (SdkInt.quo t2 _) as [t3|]; [|reflexivity]. cbn [obind].
  destruct (SdkInt.add t3 1) as [dep|]; [|reflexivity]. cbn [obind].
  destruct (negb (dep <? 0)); [|reflexivity].
  destruct (negb (Z.min exact_std room <? 0)); [|reflexivity].
  destruct (negb (max_tok <? dep)); reflexivity.
Qed.

(** * RemoveLiquidity: [liquidity burned; standard coin paid; token paid] as handed to removeLiquidity *)

Definition m_remove_amounts (stdres tokres liq w min_std min_tok : Z) : option (list Z) :=
  guard (negb (stdres <? min_std)) ;;
  guard (negb (tokres <? min_tok)) ;;
  guard (negb (liq <? w)) ;;
  t1 <- SdkInt.mul w stdres ;;
  std_w <- SdkInt.quo t1 liq ;;
  t2 <- SdkInt.mul w tokres ;;
  tok_w <- SdkInt.quo t2 liq ;;
  guard (negb (std_w <? 0)) ;; guard (negb (tok_w <? 0)) ;;
  guard (negb (std_w <? min_std)) ;;
  guard (negb (tok_w <? min_tok)) ;;
  Some [w; std_w; tok_w].

Lemma agree_RemoveLiquidity : forall min_std min_tok w tokres stdres liq,
  gen_RemoveLiquidity min_std min_tok w tokres stdres liq = m_remove_amounts stdres tokres liq w min_std min_tok.
Proof. intros; first [ reflexivity | unfold gen_RemoveLiquidity, m_remove_amounts; normalise ]. Qed.

Lemma agree_RemoveLiquidity_inputs : gen_RemoveLiquidity_inputs =
  [ "arg1.MinStandardAmt";
    "arg1.MinToken";
    "arg1.WithdrawLiquidity.Amount";
    (* counterparty-token reserve, then standard reserve, of the pool's escrow address *)
    "recv.GetPoolBalances(arg0, recv.GetPoolByLptDenom(arg0, arg1.WithdrawLiquidity.Denom)#0.EscrowAddress)#0.AmountOf(recv.GetPoolByLptDenom(arg0, arg1.WithdrawLiquidity.Denom)#0.CounterpartyDenom)";
    "recv.GetPoolBalances(arg0, recv.GetPoolByLptDenom(arg0, arg1.WithdrawLiquidity.Denom)#0.EscrowAddress)#0.AmountOf(recv.GetStandardDenom(arg0)#0)";
    (* supply of the withdrawn liquidity token *)
    "recv.bk.GetSupply(arg0, arg1.WithdrawLiquidity.Denom).Amount" ]%string.
Proof. reflexivity. Qed.

Lemma agree_RemoveLiquidity_assumes : gen_RemoveLiquidity_assumes =
  [ "recv.GetPoolByLptDenom(arg0, arg1.WithdrawLiquidity.Denom)#1" ]%string.
Proof. reflexivity. Qed.

(* removeLiquidity: takes and burns the liquidity token, pays out both coins *)
Lemma agree_removeLiquidity : forall w std_w tok_w,
  gen_removeLiquidity w std_w tok_w = Some [w; w; std_w; tok_w; std_w; tok_w].
Proof. intros; first [ reflexivity | unfold gen_removeLiquidity; normalise ]. Qed.
Lemma agree_removeLiquidity_inputs : gen_removeLiquidity_inputs = ["arg3.Amount"; "arg4.Amount"; "arg5.Amount"]%string.
Proof. reflexivity. Qed.

Lemma uses_remove_liquidity : forall s sender seq w min_std min_tok,
  remove_liquidity s sender seq w min_std min_tok =
  (tokn <- lookup_seq seq (st_pools s) ;;
   match m_remove_amounts (st_bal s (Escrow seq) Std) (st_bal s (Escrow seq) (Tok tokn)) (st_sup s (Lpt seq))
                          w min_std min_tok with
   | Some [w'; std_w; tok_w] =>
       s1 <- send s sender M_coinswap (Lpt seq) w' ;;
       s2 <- burn s1 M_coinswap (Lpt seq) w' ;;
       s3 <- send s2 (Escrow seq) sender Std std_w ;;
       s4 <- send s3 (Escrow seq) sender (Tok tokn) tok_w ;;
       Some (s4, (std_w, tok_w))
   | _ => None
   end).
Proof.
  intros. unfold remove_liquidity, m_remove_amounts.
  destruct (lookup_seq seq (st_pools s)) as [tokn|]; [|reflexivity]. cbn [obind].
  destruct (negb (st_bal s (Escrow seq) Std <? min_std)); [|reflexivity].
  destruct (negb (st_bal s (Escrow seq) (Tok tokn) <? min_tok)); [|reflexivity].
  destruct (negb (st_sup s (Lpt seq) <? w)); [|reflexivity].
  destruct (SdkInt.mul w (st_bal s (Escrow seq) Std)) as [t1|]; [|reflexivity]. cbn [obind].
  destruct (SdkInt.quo t1 _) as [std_w|]; [|reflexivity]. cbn [obind].
  destruct (SdkInt.mul w (st_bal s (Escrow seq) (Tok tokn))) as [t2|]; [|reflexivity]. cbn [obind].
  destruct (SdkInt.quo t2 _) as [tok_w|]; [|reflexivity]. cbn [obind].
  destruct (negb (std_w <? 0)); [|reflexivity].
  destruct (negb (tok_w <? 0)); [|reflexivity].
  destruct (negb (std_w <? min_std)); [|reflexivity].
  destruct (negb (tok_w <? min_tok)); reflexivity.
Qed.

(** * DeductPoolCreationFee: [fee collected; community tax; burned] *)

Definition m_creation_fee_split (amt tax_rate : Z) : option (list Z) :=
  tax <- tax_part amt tax_rate ;;
  guard (negb (tax <? 0)) ;;
  guard (negb (amt - tax <? 0)) ;;
  Some [amt; tax; amt - tax].

(* Coin.Sub goes through Int.Sub (256-bit check) before the sign test; both operands are Int values, i.e.
   below 2^256 in absolute value, so the check can only fire when the difference is negative anyway *)
Lemma agree_DeductPoolCreationFee : forall amt tax_rate,
  Z.abs amt < 2 ^ 256 ->
  gen_DeductPoolCreationFee amt tax_rate = m_creation_fee_split amt tax_rate.
Proof.
  intros amt tax_rate Ha.
  unfold gen_DeductPoolCreationFee, m_creation_fee_split, tax_part.
  destruct (SdkDec.mul _ _) as [t|]; [|reflexivity]. cbn [obind].
  unfold SdkDec.truncate_int.
  destruct (2 ^ 256 <=? Z.abs (Z.quot t SdkDec.S)) eqn:Eq; [reflexivity|]. cbn [obind].
  set (tax := Z.quot t SdkDec.S) in *.
  destruct (negb (tax <? 0)) eqn:E1; [|reflexivity].
  unfold SdkInt.sub, SdkInt.chk, SdkInt.overflows, SdkInt.bound.
  destruct (2 ^ 256 <=? Z.abs (amt - tax)) eqn:E2; cbn [obind].
  - destruct (negb (amt - tax <? 0)) eqn:E3; [|reflexivity].
    exfalso. b2p. lia.
  - reflexivity.
Qed.

Lemma agree_DeductPoolCreationFee_inputs : gen_DeductPoolCreationFee_inputs =
  [ "recv.GetParams(arg0).PoolCreationFee.Amount"; "recv.GetParams(arg0).TaxRate" ]%string.
Proof. reflexivity. Qed.

Lemma uses_deduct_creation_fee : forall s creator,
  deduct_creation_fee s creator =
  (let p := st_params s in
   match m_creation_fee_split (p_cfee_amt p) (p_tax p) with
   | Some [amt; tax; burned] =>
       s1 <- send s creator M_coinswap (p_cfee_denom p) amt ;;
       s2 <- send s1 M_coinswap M_feecollector (p_cfee_denom p) tax ;;
       burn s2 M_coinswap (p_cfee_denom p) burned
   | _ => None
   end).
Proof.
  intros. unfold deduct_creation_fee, m_creation_fee_split.
  destruct (tax_part _ _) as [tax|]; [|reflexivity]. cbn [obind].
  destruct (negb (tax <? 0)); [|reflexivity].
  destruct (negb (p_cfee_amt (st_params s) - tax <? 0)); reflexivity.
Qed.
