(** Agreement between the tables regenerated from /repo/app/ante/handler_options.go, app/ante/ante.go and
    app/app.go (Gen/KAnte.v, written by tools/gokernel on every run) and the reference tables of
    Model/Ante.v on which the C19 theorems rest. *)
From Coq Require Import List String.
From Canto Require Import Model.Ante Gen.KAnte.
Import ListNotations.
Open Scope string_scope.
Open Scope list_scope.

(* the decorator list, in order, of each of the four chains *)
Lemma agree_eth_chain : gen_chain_newEthAnteHandler = ref_eth_chain.
Proof. reflexivity. Qed.
Lemma agree_cosmos_chain : gen_chain_newCosmosAnteHandler = ref_cosmos_chain.
Proof. reflexivity. Qed.
Lemma agree_sim_chain : gen_chain_newCosmosSimulationAnteHandler = ref_sim_chain.
Proof. reflexivity. Qed.
Lemma agree_eip712_chain : gen_chain_newCosmosAnteHandlerEip712 = ref_eip712_chain.
Proof. reflexivity. Qed.
(* there is no fifth chain, and the functions appear under these names *)
Lemma agree_chains : gen_chains = ref_chains.
Proof. reflexivity. Qed.

(* the extension-option switch of NewAnteHandler: what it switches on, case -> handler, default, no-option branch *)
Lemma agree_switch_on : gen_switch_on = ref_switch_on.
Proof. reflexivity. Qed.
(* [ref_switch_on] is the model's name for "the type URL of the first extension option"; in terms of the
   closure's parameters that value, and the conditions under which the dispatch on it is reached, are: *)
Lemma agree_switch_subject :
  gen_switch_subject = "tx.(authante.HasExtensionOptionsTx)#0.GetExtensionOptions()[0].GetTypeUrl()".
Proof. reflexivity. Qed.
Lemma agree_switch_guard : gen_switch_guard =
  [ "tx.(authante.HasExtensionOptionsTx)#1";
    "len(tx.(authante.HasExtensionOptionsTx)#0.GetExtensionOptions()) > 0" ].
Proof. reflexivity. Qed.
Lemma agree_switch : gen_switch = ref_switch.
Proof. reflexivity. Qed.
Lemma agree_switch_default : gen_switch_default = ref_switch_default.
Proof. reflexivity. Qed.
Lemma agree_plain : gen_plain = ref_plain.
Proof. reflexivity. Qed.

(* HandlerOptions.DisabledAuthzMsgs of app.go *)
Lemma agree_disabled : gen_disabled = ref_disabled.
Proof. reflexivity. Qed.

Lemma agree_tables :
  mkTables gen_chains gen_switch_on gen_switch gen_switch_default gen_plain gen_disabled = ref_tables.
Proof. reflexivity. Qed.

(* maccPerms of app.go: the module accounts (every one of them is a blocked address: BlockedAddrs ranges over
   this map) with their permissions.  Model/Ante.v has no such table; the reference copy lives here. *)
Definition auth := "github.com/cosmos/cosmos-sdk/x/auth/types.".
Definition ref_macc_perms : list (string * string) := [
  ("github.com/cosmos/cosmos-sdk/x/auth/types.FeeCollectorName", "");
  ("github.com/cosmos/cosmos-sdk/x/distribution/types.ModuleName", "");
  ("github.com/cosmos/cosmos-sdk/x/staking/types.BondedPoolName", (auth ++ "Burner," ++ auth ++ "Staking")%string);
  ("github.com/cosmos/cosmos-sdk/x/staking/types.NotBondedPoolName", (auth ++ "Burner," ++ auth ++ "Staking")%string);
  ("github.com/cosmos/cosmos-sdk/x/gov/types.ModuleName", (auth ++ "Burner")%string);
  ("github.com/cosmos/ibc-go/v8/modules/apps/transfer/types.ModuleName", (auth ++ "Minter," ++ auth ++ "Burner")%string);
  ("github.com/evmos/ethermint/x/evm/types.ModuleName", (auth ++ "Minter," ++ auth ++ "Burner")%string);
  ("github.com/Canto-Network/Canto/v8/x/inflation/types.ModuleName", (auth ++ "Minter")%string);
  ("github.com/Canto-Network/Canto/v8/x/erc20/types.ModuleName", (auth ++ "Minter," ++ auth ++ "Burner")%string);
  ("github.com/Canto-Network/Canto/v8/x/csr/types.ModuleName", (auth ++ "Minter," ++ auth ++ "Burner")%string);
  ("github.com/Canto-Network/Canto/v8/x/govshuttle/types.ModuleName", (auth ++ "Minter," ++ auth ++ "Burner")%string);
  ("github.com/Canto-Network/Canto/v8/x/onboarding/types.ModuleName", (auth ++ "Minter," ++ auth ++ "Burner")%string);
  ("github.com/Canto-Network/Canto/v8/x/coinswap/types.ModuleName", (auth ++ "Minter," ++ auth ++ "Burner")%string) ].

Lemma agree_macc_perms : gen_macc_perms = ref_macc_perms.
Proof. reflexivity. Qed.
Lemma agree_macc_keys : gen_macc_keys = map fst ref_macc_perms.
Proof. reflexivity. Qed.
