(** Agreement between the definition regenerated from /repo/x/epochs/keeper/abci.go (the function literal of
    BeginBlocker, with StartInitialEpoch / EndEpoch of types/epoch_info.go inlined; Gen/KEpochs.v, written by
    tools/gokernel on every run) and Model.Epochs.tick. *)
From Coq Require Import ZArith List Bool String Lia.
From Canto Require Import Lib.SdkInt Lib.SdkDec Model.Epochs Gen.KEpochs Gen.AgreeTactics.
Import ListNotations.
Open Scope Z_scope.

(* what the Go code hands out, in call order:
     start:  SetEpochInfo{CurrentEpoch, CurrentEpochStartHeight, CurrentEpochStartTime, EpochCountingStarted}; BeforeEpochStart(n)
     end:    AfterEpochEnd(n); SetEpochInfo{CurrentEpoch, CurrentEpochStartHeight, CurrentEpochStartTime}; BeforeEpochStart(n)
     else:   nothing (the record is not stored) *)
Definition encode (r : epoch * list hook) : list Z :=
  let e' := fst r in
  match snd r with
  | [BeforeStart _ n] => [e_cur e'; e_height e'; e_cur_start e'; (if e_started e' then 1 else 0); n]
  | [AfterEnd _ m; BeforeStart _ n] => [m; e_cur e'; e_height e'; e_cur_start e'; n]
  | _ => []
  end.

Lemma agree_BeginBlocker : forall e t h,
  gen_BeginBlocker (e_cur e) (e_cur_start e) (e_dur e) (e_started e) (e_start e) h t = Some (encode (tick t h e)).
Proof.
  intros. unfold gen_BeginBlocker, tick, encode. cbv zeta.
  (* every boolean combination of the three atomic facts *)
  destruct (e_started e); destruct (t <? e_start e); destruct (e_cur_start e + e_dur e <? t);
    cbn [negb andb fst snd]; first [ reflexivity | normalise ].
Qed.

(* nothing of the record changes unless one of the two branches is taken, and a branch is taken exactly when
   the model's tick emits hooks *)
Lemma agree_BeginBlocker_idle : forall e t h,
  snd (tick t h e) = [] -> gen_BeginBlocker (e_cur e) (e_cur_start e) (e_dur e) (e_started e) (e_start e) h t = Some [].
Proof. intros e t h H. rewrite agree_BeginBlocker. unfold encode. rewrite H. reflexivity. Qed.

Lemma agree_BeginBlocker_inputs : gen_BeginBlocker_inputs =
  [ "carg1.CurrentEpoch";
    "carg1.CurrentEpochStartTime";
    "carg1.Duration";
    "carg1.EpochCountingStarted";
    "carg1.StartTime";
    "sdk.UnwrapSDKContext(arg0).BlockHeight()";
    "sdk.UnwrapSDKContext(arg0).BlockTime()" ]%string.
Proof. reflexivity. Qed.

Lemma agree_BeginBlocker_assumes : gen_BeginBlocker_assumes = [].
Proof. reflexivity. Qed.
