(** Agreement between the definition regenerated from /repo/x/csr/keeper/evm_hooks.go (Gen/KCsr.v, written by
    tools/gokernel on every run) and the fee arithmetic of the hand-written model (Model/Csr.v: [fee_of],
    [csr_fee_of], the remainder, the "csrFee positive" test in front of distributeFees, the revenue update).

    [gen_PostTxProcessing] returns, per execution path, the amounts the hook hands out, in call order:
      SendCoinsFromModuleToModule(fee) ; [CallMethod distributeFees(csrFee)] ; BurnCoins(..) ; SetCSR(revenue, txs). *)
From Coq Require Import ZArith List Bool String Lia.
From Canto Require Import Lib.SdkInt Lib.SdkDec Model.Csr Gen.KCsr Gen.AgreeTactics.
Import ListNotations.
Open Scope Z_scope.

(* the amounts of Model.Csr.post_tx, path by path, in the order the Go code hands them out *)
Definition m_post_tx_amounts (enable_csr contract_nil found_nft : bool) (gas_used gas_price sh revenue txs : Z)
  : option (list Z) :=
  if negb enable_csr then Some [] else
  if gas_used =? 0 then Some [] else
  fee <- fee_of (mkTx (fun _ => false) [] gas_used gas_price None) ;;
  if contract_nil then Some [fee; fee]                 (* contract creation: send, burn everything *)
  else if negb found_nft then Some [fee; fee]          (* unregistered target: send, burn everything *)
  else
    cf <- csr_fee_of fee sh ;;
    rem <- SdkInt.sub fee cf ;;
    guard (0 <=? rem) ;;
    rev <- SdkInt.add revenue cf ;;
    Some (if 0 <? cf then [fee; cf; rem; rev; txs + 1] else [fee; rem; rev; txs + 1]).

Lemma agree_PostTxProcessing : forall gas_price contract_nil gas_used revenue txs found_nft sh enable_csr,
  gen_PostTxProcessing gas_price contract_nil gas_used revenue txs found_nft sh enable_csr
  = m_post_tx_amounts enable_csr contract_nil found_nft gas_used gas_price sh revenue txs.
Proof.
  intros. unfold gen_PostTxProcessing, m_post_tx_amounts, fee_of, csr_fee_of.
  cbn [tx_gas_price tx_gas_used].
  first [ solve [
    destruct (negb enable_csr); [reflexivity|];
    destruct (gas_used =? 0); [reflexivity|];
    destruct (SdkInt.of_big gas_price) as [gp|]; [|reflexivity]; cbn [obind];
    destruct (SdkInt.mul gas_used gp) as [fee|]; [|reflexivity]; cbn [obind];
    rewrite (Z.leb_antisym fee 0);
    destruct (negb (fee <? 0)); [|reflexivity]; cbn [obind];
    destruct contract_nil; [reflexivity|];
    destruct (negb found_nft); [reflexivity|];
    destruct (SdkDec.mul (SdkDec.of_int fee) sh) as [d|]; [|reflexivity]; cbn [obind];
    destruct (SdkDec.truncate_int d) as [cf|]; [|reflexivity]; cbn [obind];
    destruct (SdkInt.sub fee cf) as [rem|]; [|reflexivity]; cbn [obind];
    rewrite (Z.leb_antisym rem 0);
    destruct (negb (rem <? 0)); [|destruct (0 <? cf); reflexivity];
    destruct (0 <? cf); destruct (SdkInt.add revenue cf); reflexivity ]
  | solve [ destruct enable_csr, contract_nil, found_nft; normalise ] ].
Qed.

Lemma agree_PostTxProcessing_inputs : gen_PostTxProcessing_inputs =
  [ "arg1.GasPrice()";                                  (* msg.GasPrice() *)
    "arg1.To() == nil";                                 (* contract creation *)
    "arg2.GasUsed";                                     (* receipt.GasUsed *)
    "recv.k.GetCSR(arg0, recv.k.GetNFTByContract(arg0, arg1.To().String())#0)#0.Revenue";
    "recv.k.GetCSR(arg0, recv.k.GetNFTByContract(arg0, arg1.To().String())#0)#0.Txs";
    "recv.k.GetNFTByContract(arg0, arg1.To().String())#1";
    "recv.k.GetParams(arg0).CsrShares";
    "recv.k.GetParams(arg0).EnableCsr" ]%string.
Proof. reflexivity. Qed.

(* the two lookups whose failure is an error return (ErrNonexistentCSR, ErrContractDeployments) *)
Lemma agree_PostTxProcessing_assumes : gen_PostTxProcessing_assumes =
  [ "recv.k.GetCSR(arg0, recv.k.GetNFTByContract(arg0, arg1.To().String())#0)#1";
    "recv.k.GetTurnstile(arg0)#1" ]%string.
Proof. reflexivity. Qed.

(* csr.Txs is a uint64; the translator computes with unbounded integers, the model wraps *)
Lemma txs_no_wrap : forall txs, 0 <= txs < 2 ^ 64 - 1 -> u64 (txs + 1) = txs + 1.
Proof. intros txs H. unfold u64. apply Z.mod_small. lia. Qed.
